#!/usr/bin/env python3
"""showrej.py <val.txt> <stmt.ndjson> [n] : debugging aid - print rejected statement records compactly"""
import json,re,sys,collections
val=open(sys.argv[1]).read()
rej=dict(re.findall(r'"REJECT", "([^"]+)", "([^"]+)"', val))
n=int(sys.argv[3]) if len(sys.argv)>3 else 30
def sv(v):
    t=v['t']
    if t=='s': return repr(bytes(v['s']).decode('latin1'))
    if t=='i': return str(v['n'])
    if t=='f': return '%gf'%(v['n']/2**v['d'])
    if t=='b': return 'T' if v['n'] else 'F'
    if t in('l',): return '['+','.join(sv(x) for x in v['l'])+']'
    if t=='j': return '{'+','.join(bytes(m['s']).decode()+':'+sv(m['l'][0]) for m in v['l'])+'}'
    return t+':'+bytes(v['s']).decode('latin1')
seen=collections.Counter()
for l in open(sys.argv[2]):
    d=json.loads(l)
    if d['id'] in rej:
        k=rej[d['id']]
        seen[k]+=1
        if seen[k]>n: continue
        print('---',k,'|',d['q'])
        for r in d['runs']:
            rows=[ [sv(c) for c in row] for row in r['rows']][:6]
            print('   ',r['role'],r['mode'],r['bs'],r['phase'],r['errmsg'][:70],rows)
