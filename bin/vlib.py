"""Runner library for the kvql model-based checks (see DESIGN.md section 4).

A check is a pipeline of stages:
  (M) tlc_mc        model-check a design-layer cfg against the contract
  (G) tlc_gen       let TLC enumerate cases + expectations, replay them in the engine
  (V) record/validate  the harness records engine executions, TLC validates them
Every verdict comes from an observation of the real engine; TLC / Java /
harness failures are exit 2 (infrastructure), never a violation.
"""
import glob
import hashlib
import json
import os
import re
import shutil
import subprocess
import sys
import time

VERIF = os.path.dirname(os.path.dirname(os.path.abspath(__file__)))
REPO = os.environ.get("KVQL_REPO", "/repo")
SPEC = os.path.join(VERIF, "spec")
HARNESS = os.path.join(VERIF, "harness")
NCPU = min(16, os.cpu_count() or 4)

GOENV = dict(os.environ, GOFLAGS="-mod=mod", GOPROXY="off", GOSUMDB="off", GOTOOLCHAIN="local")


GEN_SPECS = {}


class Infra(Exception):
    """The machinery itself failed: exit 2, never a violation."""


class Ctx:
    def __init__(self, prop, tier, seed):
        self.prop = prop
        self.tier = tier
        self.seed = seed
        self.t0 = time.time()
        self.scratch = os.path.join(VERIF, "scratch", "%s-%s-%d" % (prop, tier, os.getpid()))
        shutil.rmtree(self.scratch, ignore_errors=True)
        os.makedirs(self.scratch)
        self.states = 0
        self.transitions = 0
        self.traces = 0
        self.evaluations = 0
        self.nontrivial = 0
        self.unmodelled = 0
        self.samples = []
        self.cmds = []
        self.rules = []
        self.findings = []       # dicts: prop, kind, sig, case, query, detail, replay
        self.exhaustive = True
        self.extra = {}
        self.kvh = None
        self.n = 0

    def sub(self, name):
        self.n += 1
        d = os.path.join(self.scratch, "%02d-%s" % (self.n, name))
        os.makedirs(d)
        return d

    def cleanup(self):
        shutil.rmtree(self.scratch, ignore_errors=True)
        try:
            os.rmdir(os.path.join(VERIF, "scratch"))
        except OSError:
            pass


def log(*a):
    print("[check]", *a, file=sys.stderr, flush=True)


# --------------------------------------------------------------------------- harness

def build_harness(ctx, race=False):
    """Rebuild the conformance harness against /repo's current working tree."""
    out = os.path.join(ctx.scratch, "kvh-race" if race else "kvh")
    src = os.path.join(ctx.scratch, "hsrc")
    if not os.path.isdir(src):
        shutil.copytree(HARNESS, src, ignore=shutil.ignore_patterns("kvh", "kvh-race"))
        gomod = open(os.path.join(src, "go.mod")).read().replace("=> /repo", "=> " + REPO)
        open(os.path.join(src, "go.mod"), "w").write(gomod)
        shutil.copy(os.path.join(REPO, "go.sum"), os.path.join(src, "go.sum"))
    cmd = ["go", "build"] + (["-race"] if race else []) + ["-o", out, "."]
    p = subprocess.run(cmd, cwd=src, env=GOENV, capture_output=True, text=True, timeout=600)
    if p.returncode != 0:
        raise Infra("harness build failed (does /repo still compile?):\n" + p.stdout + p.stderr)
    if not race:
        ctx.kvh = out
    return out


def run_harness(ctx, args, outdir, shards=1, timeout=3000, kvh=None, env=None, only_shard=None):
    """Run `kvh <args> --out outdir/sN --shard N --shards shards` in parallel; merge outputs."""
    kvh = kvh or ctx.kvh
    procs = []
    e = dict(GOENV, VERIF_SEED=str(ctx.seed))
    if env:
        e.update(env)
    for s in ([only_shard] if only_shard is not None else range(shards)):
        od = os.path.join(outdir, "s%d" % s)
        cmd = [kvh] + args + ["--out", od, "--shard", str(s), "--shards", str(shards), "--tier", ctx.tier]
        procs.append((subprocess.Popen(cmd, env=e, stdout=subprocess.PIPE, stderr=subprocess.PIPE, text=True), od, cmd))
    ctx.cmds.append("kvh " + " ".join(args) + " (x%d shards)" % shards)
    res = {"findings": [], "stats": [], "traces": {}, "dirs": [], "stderr": []}
    deadline = time.time() + timeout
    for p, od, cmd in procs:
        try:
            so, se = p.communicate(timeout=max(1, deadline - time.time()))
        except subprocess.TimeoutExpired:
            for q, _, _ in procs:
                q.kill()
            raise Infra("harness timed out: " + " ".join(cmd))
        if p.returncode != 0:
            raise Infra("harness failed (%d): %s\n%s" % (p.returncode, " ".join(cmd), (so + se)[-3000:]))
        res["dirs"].append(od)
        res["stderr"].append(se)
        st = json.load(open(os.path.join(od, "stats.json")))
        if st.get("infra"):
            raise Infra("harness reported: " + "; ".join(st["infra"][:5]))
        res["stats"].append(st)
        with open(os.path.join(od, "findings.ndjson")) as f:
            for line in f:
                res["findings"].append(json.loads(line))
        for t in glob.glob(os.path.join(od, "*.ndjson")):
            name = os.path.basename(t)[:-7]
            if name != "findings":
                res["traces"].setdefault(name, []).append(t)
    for st in res["stats"]:
        ctx.evaluations += st.get("evaluations", 0)
        ctx.nontrivial += st.get("distinct_nontrivial", 0)
        ctx.unmodelled += st.get("unmodelled", 0)
        for s in st.get("samples") or []:
            if len(ctx.samples) < 8:
                ctx.samples.append(s)
        for k, v in (st.get("extra") or {}).items():
            ctx.extra[k] = ctx.extra.get(k, 0) + v
    return res


# --------------------------------------------------------------------------- TLC

def _prep_spec_dir(d, cfg_name, overrides, extra_files=None):
    for f in glob.glob(os.path.join(SPEC, "*.tla")):
        shutil.copy(f, d)
    cfg = open(os.path.join(SPEC, "cfg", cfg_name)).read()
    for k, v in (overrides or {}).items():
        sep = " " if str(v).startswith("<-") else " = "
        if re.search(r"^CONSTANT\s+%s\s*(=|<-)" % re.escape(k), cfg, re.M):
            cfg = re.sub(r"^CONSTANT\s+%s\s*(=|<-).*$" % re.escape(k), "CONSTANT %s%s%s" % (k, sep, v), cfg, flags=re.M)
        else:
            cfg += "\nCONSTANT %s%s%s\n" % (k, sep, v)
    open(os.path.join(d, "run.cfg"), "w").write(cfg)
    for src, dst in (extra_files or {}).items():
        shutil.copy(src, os.path.join(d, dst))


def tlc_popen(d, module, workers, extra_args=None, stdout=None, jvm=None):
    cmd = ["java", "-XX:+UseParallelGC", "-Xss64m"] + (jvm or []) + ["-cp",
           "/opt/veriftools/tla/tla2tools.jar:/opt/veriftools/tla/CommunityModules-deps.jar",
           "tlc2.TLC", "-workers", str(workers), "-metadir", os.path.join(d, "meta"),
           "-config", "run.cfg"] + (extra_args or []) + [module + ".tla"]
    return subprocess.Popen(cmd, cwd=d, stdout=stdout or subprocess.PIPE, stderr=subprocess.STDOUT, text=True), cmd


def _tlc_summary(text):
    r = {"ok": "Model checking completed. No error has been found." in text,
         "violated": None, "states": 0, "distinct": 0, "error": None}
    m = re.findall(r"(\d+) states generated, (\d+) distinct states found", text)
    if m:
        r["states"], r["distinct"] = int(m[-1][0]), int(m[-1][1])
    m = re.search(r"Error: Invariant (\S+) is violated", text)
    if m:
        r["violated"] = m.group(1)
    m = re.search(r"Error: (Temporal properties were violated|Action property \S+ is violated|Deadlock reached)", text)
    if m and not r["violated"]:
        r["violated"] = m.group(1)
    if not r["ok"] and not r["violated"]:
        m = re.search(r"Error: .*(?:\n.*){0,6}", text)
        r["error"] = m.group(0) if m else text[-1500:]
    return r


def tlc_mc(ctx, module, cfg_name, overrides=None, workers=NCPU, timeout=1800, name=None, expect_violation=None,
           extra_args=None, count=True):
    """(M) model-check; the design layer must satisfy the contract (else the model is broken: Infra)."""
    d = ctx.sub(name or ("mc-" + module))
    _prep_spec_dir(d, cfg_name, overrides)
    p, cmd = tlc_popen(d, module, workers, extra_args)
    try:
        out, _ = p.communicate(timeout=timeout)
    except subprocess.TimeoutExpired:
        p.kill()
        raise Infra("TLC timed out (%ds): %s/%s" % (timeout, module, cfg_name))
    r = _tlc_summary(out)
    r["out"] = out
    ctx.cmds.append("tlc -workers %d -config cfg/%s %s.tla %s" % (workers, cfg_name, module,
                    " ".join("%s=%s" % kv for kv in (overrides or {}).items())))
    if expect_violation is not None:
        return r
    if not r["ok"]:
        raise Infra("TLC did not accept %s/%s (the spec's own design=>contract check failed or TLC crashed):\n%s"
                    % (module, cfg_name, (r["violated"] or r["error"] or "") + "\n" + out[-2500:]))
    if count:
        ctx.states += r["distinct"]
        ctx.transitions += r["states"]
    return r


def tlc_gen(ctx, module, cfg_name, overrides=None, workers=NCPU, timeout=1800, name=None, extra_args=None, count=True):
    """(M)+(G): model-check and collect the JSON case lines TLC prints; returns path of the line file."""
    d = ctx.sub(name or ("gen-" + module))
    _prep_spec_dir(d, cfg_name, overrides)
    path = os.path.join(d, "gen.txt")
    with open(path, "w") as f:
        p, cmd = tlc_popen(d, module, workers, extra_args, stdout=f)
        try:
            p.wait(timeout=timeout)
        except subprocess.TimeoutExpired:
            p.kill()
            raise Infra("TLC timed out (%ds): %s/%s" % (timeout, module, cfg_name))
    # separate the case lines from TLC's own output
    other = []
    lines = 0
    with open(path) as f:
        for line in f:
            if line.startswith('"{'):
                lines += 1
            else:
                other.append(line)
    text = "".join(other)
    r = _tlc_summary(text)
    ctx.cmds.append("tlc -workers %d -config cfg/%s %s.tla %s" % (workers, cfg_name, module,
                    " ".join("%s=%s" % kv for kv in (overrides or {}).items())))
    if not r["ok"] and "-simulate" not in " ".join(extra_args or []):
        raise Infra("TLC did not accept %s/%s:\n%s" % (module, cfg_name, (r["violated"] or r["error"] or "") + "\n" + text[-2500:]))
    if "-simulate" in " ".join(extra_args or []) and (r["violated"] or r["error"]):
        raise Infra("TLC simulation failed %s/%s:\n%s" % (module, cfg_name, text[-2500:]))
    if count:
        ctx.states += r["distinct"]
        ctx.transitions += r["states"]
    r["lines"] = lines
    r["path"] = path
    r["spec"] = {"module": module, "cfg": cfg_name, "overrides": overrides or {}, "extra_args": extra_args or []}
    GEN_SPECS[path] = r["spec"]
    return r


def tlc_validate(ctx, module, cfg_name, trace_files, trace_name, overrides=None, timeout=1800, jobs=NCPU, name=None,
                 chunk_bytes=3 << 20):
    """(V) validate recorded traces: single-worker JVMs (at most `jobs` at a time, bounded heap) over chunks of the
    recorded cases. Returns list of REJECT tuples."""
    files = [f for f in trace_files if os.path.getsize(f) > 0]
    base = ctx.sub(name or ("val-" + module))
    # split the recorded cases into chunks: at least `jobs` of them (parallelism), none bigger than chunk_bytes (heap)
    total_bytes = sum(os.path.getsize(f) for f in files)
    per = max(1, min(chunk_bytes, total_bytes // jobs + 1))
    chunks, cur, cur_n, cur_b, total = [], None, 0, 0, 0

    def close():
        nonlocal cur, cur_n, cur_b
        if cur is not None:
            cur[1].close()
            chunks.append((cur[0], cur_n))
        cur, cur_n, cur_b = None, 0, 0

    for f in files:
        with open(f) as fin:
            for line in fin:
                if cur is None:
                    d = os.path.join(base, "j%d" % len(chunks))
                    os.makedirs(d)
                    _prep_spec_dir(d, cfg_name, overrides)
                    cur = (d, open(os.path.join(d, trace_name), "w"))
                cur[1].write(line)
                cur_n += 1
                cur_b += len(line)
                total += 1
                if cur_b >= per:
                    close()
    close()
    xmx = "-Xmx%dm" % max(1536, min(8192, 44000 // max(1, min(jobs, len(chunks)))))
    ctx.cmds.append("tlc -workers 1 -config cfg/%s %s.tla  (x%d JVMs, %d at a time, over %d recorded cases)" % (cfg_name, module, len(chunks), jobs, total))
    rejects = []
    deadline = time.time() + timeout
    pending = list(chunks)
    running = []

    def killall():
        for q, _, _ in running:
            try:
                q.kill()
            except Exception:
                pass

    import tempfile
    while pending or running:
        while pending and len(running) < jobs:
            d, n = pending.pop(0)
            of = open(os.path.join(d, "tlc.out"), "w+")
            p, cmd = tlc_popen(d, module, 1, stdout=of, jvm=[xmx])
            running.append((p, d, of))
        still = []
        for p, d, of in running:
            if p.poll() is None:
                still.append((p, d, of))
                continue
            of.seek(0)
            out = of.read()
            of.close()
            r = _tlc_summary(out)
            if not r["ok"]:
                running = still + [x for x in running if x[0] is not p and x not in still]
                killall()
                errs = "\n".join(l for l in out.splitlines() if re.search(r"Error|Exception|error:|OutOfMemory|StackOverflow", l))[:3000]
                raise Infra("TLC trace validation failed in %s (exit %s):\n%s\n%s" % (module, p.returncode, (r["violated"] or r["error"] or ""), errs + "\n...\n" + out[-1500:]))
            ctx.states += r["distinct"]
            ctx.transitions += r["states"]
            rejects += parse_rejects(out)
            ctx.unmodelled += len(re.findall(r'^<<\s*"UNMODELLED"', out, re.M))
            nd = len(parse_tagged(out, "DRIFT"))
            if nd:
                ctx.extra["planner_design_drift_records"] = ctx.extra.get("planner_design_drift_records", 0) + nd
                ex = ctx.extra.setdefault("planner_design_drift_examples", [])
                for t in parse_tagged(out, "DRIFT"):
                    if len(ex) < 5:
                        ex.append(t[:500])
            shutil.rmtree(d, ignore_errors=True)
        running = still
        if time.time() > deadline:
            killall()
            raise Infra("TLC trace validation timed out: " + module)
        if running:
            time.sleep(0.05)
    ctx.traces += total
    return rejects


def parse_tagged(out, tag):
    """PrintT(<<tag, ...>>) tuples as single strings (TLC wraps long tuples over several lines)."""
    res, buf = [], None
    for line in out.splitlines():
        if buf is None:
            if line.startswith('<<"%s"' % tag) or line.startswith('<< "%s"' % tag):
                buf = line
            else:
                continue
        else:
            buf += " " + line.strip()
        if buf.count("<<") == buf.count(">>"):
            res.append(buf)
            buf = None
    return res


def parse_rejects(out):
    """PrintT(<<"REJECT", id, reason, ...>>) tuples, possibly wrapped over several lines."""
    res = []
    buf = None
    for line in out.splitlines():
        if buf is None:
            if line.startswith('<<"REJECT"') or line.startswith('<< "REJECT"'):
                buf = line
            else:
                continue
        else:
            buf += " " + line.strip()
        if buf.count("<<") == buf.count(">>"):
            m = re.match(r'<<\s*"REJECT",\s*"((?:[^"\\]|\\.)*)"\s*(?:,\s*"((?:[^"\\]|\\.)*)")?(.*)>>\s*$', buf, re.S)
            if m:
                cid = m.group(1).replace('\\"', '"').replace("\\\\", "\\")
                res.append({"id": cid, "reason": m.group(2) or "", "rest": (m.group(3) or "").strip(" ,")})
            buf = None
    return res


# --------------------------------------------------------------------------- verdicts

def load_known():
    p = os.path.join(VERIF, "known_findings.json")
    if not os.path.exists(p):
        return {"findings": [], "fixed": []}
    return json.load(open(p))


def finish(ctx, level_text_rule):
    """Classify findings, write replays + evidence, print VIOLATION / KNOWN-FINDING lines, return exit code."""
    known = [k for k in load_known().get("findings", []) if k.get("property") == ctx.prop]
    viol = []
    knownhits = {}
    for f in ctx.findings:
        hit = None
        for k in known:
            if k.get("sig") and k["sig"] == f.get("sig"):
                hit = k
                break
        if hit:
            knownhits.setdefault(hit["sig"], [hit, 0])[1] += 1
        else:
            viol.append(f)
    rd = os.path.join(VERIF, "replays", ctx.prop)
    os.makedirs(rd, exist_ok=True)
    lines = []
    seen = set()
    for f in viol:
        h = hashlib.sha1(json.dumps([f.get("kind"), f.get("case"), f.get("query")], sort_keys=True).encode()).hexdigest()[:12]
        if h in seen:
            continue
        seen.add(h)
        path = os.path.join(rd, h + ".json")
        with open(path, "w") as out:
            json.dump(f, out, indent=1)
        if len(seen) > 300:
            try:
                os.remove(path)
            except OSError:
                pass
        if len(lines) < 25:
            lines.append("VIOLATION property=%s replay=%s" % (ctx.prop, path))
            log("  ", f.get("kind"), "|", f.get("query") or f.get("case"), "|", (f.get("detail") or "")[:300])
    for sig, (k, n) in sorted(knownhits.items()):
        print("KNOWN-FINDING: property=%s %s [%s; %d cases this run]" % (ctx.prop, k.get("what", ""), sig, n))
    for l in lines:
        print(l)
    if len(seen) > len(lines):
        log("... and %d more distinct violations (replay files written)" % (len(seen) - len(lines)))
    wall = time.time() - ctx.t0
    ev = {
        "property_id": ctx.prop, "tier": ctx.tier, "seed": ctx.seed, "level": "model_checking",
        "coverage": {
            "states": max(ctx.states, 0), "transitions": max(ctx.transitions, 0),
            "traces_validated_against_impl": ctx.traces,
            "evaluations": ctx.evaluations, "distinct_nontrivial": ctx.nontrivial,
            "unmodelled": ctx.unmodelled,
            "rule": level_text_rule, "samples": ctx.samples[:8] or ["(no case ran)"],
            "exhaustive": ctx.exhaustive, "checker_cmd": " ; ".join(ctx.cmds)[:4000],
            "extra": ctx.extra, "known_finding_hits": {s: n for s, (k, n) in knownhits.items()},
        },
        "assumptions": [
            "reference storage (sorted map, snapshot cursors) in /verif/harness/store.go stands for 'a storage with snapshot cursors'",
            "TLC 1.8.0 evaluates the specification faithfully; the harness's AST renderer is guarded by a parse-back check",
        ],
        "wall_s": round(wall, 2), "violations": len(seen),
    }
    os.makedirs(os.path.join(VERIF, "evidence"), exist_ok=True)
    with open(os.path.join(VERIF, "evidence", ctx.prop + ".json"), "w") as out:
        json.dump(ev, out, indent=1)
    log("%s %s: %d violations, %d known-finding hits, states=%d traces=%d evals=%d wall=%.0fs"
        % (ctx.prop, ctx.tier, len(seen), sum(n for _, n in knownhits.values()), ctx.states, ctx.traces, ctx.evaluations, wall))
    return 1 if seen else 0


def reconfirm(ctx, findings, rerun):
    """Keep only findings that reproduce when their case is re-run alone (rerun(finding) -> bool).
    A finding that does not reproduce is an infrastructure problem (flaky machinery), never a violation."""
    confirmed = []
    tried = {}
    for f in findings:
        key = (f.get("kind"), f.get("sig"))
        tried[key] = tried.get(key, 0) + 1
        if tried[key] > 3:
            confirmed.append(f)      # same kind/signature already reproduced three times
            continue
        if rerun(f):
            confirmed.append(f)
        else:
            raise Infra("finding did not reproduce when re-run alone: %s" % json.dumps(f)[:800])
    return confirmed


def main(checks):
    import argparse
    ap = argparse.ArgumentParser()
    ap.add_argument("prop")
    ap.add_argument("--tier", default=os.environ.get("VERIF_TIER", "quick"))
    ap.add_argument("--replay")
    ap.add_argument("--keep", action="store_true")
    a = ap.parse_args()
    seed = int(os.environ.get("VERIF_SEED", "1") or 1)
    if a.prop not in checks:
        print("unknown property", a.prop, file=sys.stderr)
        sys.exit(2)
    ctx = Ctx(a.prop, a.tier, seed)
    ctx.replay = a.replay
    code = 2
    try:
        build_harness(ctx)
        if a.replay:
            code = replay_one(ctx, a.replay)
        else:
            rule = checks[a.prop](ctx)
            code = finish(ctx, rule)
    except Infra as e:
        log("INFRASTRUCTURE FAILURE (exit 2, not a verdict):", str(e)[:6000])
        code = 2
    finally:
        if not a.keep:
            ctx.cleanup()
    sys.exit(code)


VALIDATORS = {
    "region": ("TraceRegion", "trace_region.cfg", "region", "region.ndjson"),
    "access": ("TraceAccess", "trace_access.cfg", "access", "access.ndjson"),
    "store": ("TraceStore", "trace_store.cfg", "store", "store.ndjson"),
    "stmt": ("TraceStmt", "trace_stmt.cfg", "stmt", "stmt.ndjson"),
    "lexer": ("TraceLexer", "trace_lexer.cfg", "lexer", "lexer.ndjson"),
    "syntax": ("TraceSyntax", "trace_syntax.cfg", "syntax", "syntax.ndjson"),
    "typing": ("TraceTyping", "trace_typing.cfg", "typing", "typing.ndjson"),
    "errs": ("TraceErr", "trace_err.cfg", "errs", "errs.ndjson"),
    "total": ("TraceTotal", "trace_total.cfg", "total", "total.ndjson"),
    "conc": ("TraceConc", "trace_conc.cfg", "conc", "conc.ndjson"),
}


def replay_one(ctx, path):
    """Re-run the single case of a replay file written by an earlier run."""
    f = json.load(open(path))
    r = f.get("replay")
    if not r:
        log("replay file carries no replay recipe (race reports are direct detector observations): ", f.get("detail", "")[:400])
        return 2
    ctx.seed = r.get("seed", ctx.seed)
    ctx.tier = r.get("tier", ctx.tier)
    gen_path = None
    if r.get("gen"):
        g = r["gen"]
        gen_path = tlc_gen(ctx, g["module"], g["cfg"], g["overrides"], extra_args=g.get("extra_args") or None, name="regen")["path"]
    args = [r["mode"], r["family"], "--prop", ctx.prop, "--only", r["only"]] + r.get("extra", [])
    if gen_path:
        args += ["--in", gen_path]
    if r.get("n"):
        args += ["--n", str(r["n"])]
    kvh = build_harness(ctx, race=True) if r.get("race") else None
    if r["mode"] == "record":
        res = run_harness(ctx, args, ctx.sub("replay"), shards=NCPU, only_shard=r.get("shard", 0), kvh=kvh)
    else:
        res = run_harness(ctx, args, ctx.sub("replay"), shards=1, kvh=kvh)
    hit = [x for x in res["findings"] if x["kind"] == f["kind"]]
    for tname in r.get("traces", []):
        mod, cfg, key, fn = VALIDATORS[tname]
        rej = tlc_validate(ctx, mod, cfg, res["traces"].get(key, []), fn)
        hit += [x for x in rej if not x["reason"].startswith("drift")]
    if hit:
        print("VIOLATION property=%s replay=%s" % (ctx.prop, path))
        log("reproduced:", f.get("kind"), "|", f.get("query") or f.get("case"))
        return 1
    log("did not reproduce on the current tree:", f.get("kind"), "|", f.get("query") or f.get("case"))
    return 0
