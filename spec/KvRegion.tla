------------------------------ MODULE KvRegion ------------------------------
(***************************************************************************)
(* Scan regions.                                                           *)
(*                                                                         *)
(* CONTRACT: InRegion, Sound (C02), Pinned / FaceUnsat / envelopes (C18).  *)
(* DESIGN:   PlanOf(e) - the scan-region inference of filter_optimizer.go  *)
(*           (per-atom inference, intersection* / union* case analysis),   *)
(*           one operator per Go function.  Historic defects are kept      *)
(*           behind Bug_* switches so TLC can show the invariants fail.    *)
(***************************************************************************)
EXTENDS KvEval

CONSTANTS Bug_LiteralLeft,     \* literal-on-the-left comparison planned as if the key were on the left
          Bug_DisjointUnion,   \* union of disjoint ranges takes mismatched bounds instead of the hull
          Bug_NilInBounded,    \* inRange compares a nil (unbounded) endpoint as the empty string
          Bug_NilNilRange      \* prefix | open-start range yields RANGE[nil, nil] instead of FULL

NIL == <<-1>>                  \* "nil" bound (real byte strings contain codes >= 0 only)
B(x) == IF x = NIL THEN <<>> ELSE x      \* bytes.Compare treats nil as empty

-----------------------------------------------------------------------------
(* Regions (CONTRACT) *)

ST(tp, keys) == [tp |-> tp, keys |-> keys]
EMPTY == ST("EMPTY", <<>>)
FULL  == ST("FULL", <<>>)
MGET(ks) == ST("MGET", ks)
PREFIX(p) == ST("PREFIX", <<p>>)
RANGE(lo, hi) == ST("RANGE", <<lo, hi>>)
Prio(st) == CASE st.tp = "EMPTY" -> 1 [] st.tp = "MGET" -> 2 [] st.tp = "PREFIX" -> 3
              [] st.tp = "RANGE" -> 4 [] OTHER -> 5

InRegion(key, st) ==
  CASE st.tp = "EMPTY"  -> FALSE
    [] st.tp = "MGET"   -> \E i \in 1..Len(st.keys) : st.keys[i] = key
    [] st.tp = "PREFIX" -> HasPrefix(key, st.keys[1])
    [] st.tp = "RANGE"  -> /\ (st.keys[1] = NIL \/ Cmp(st.keys[1], key) <= 0)
                           /\ (st.keys[2] = NIL \/ Cmp(key, st.keys[2]) <= 0)
    [] OTHER -> TRUE

-----------------------------------------------------------------------------
(* DESIGN: per-atom inference (optimizeEqualExpr, optimizeGtGteExpr, ...)  *)

KeyLitOf(e)   == LET l == e.a[1]  r == e.a[2] IN
              IF r.k = "str" THEN r.s ELSE IF l.k = "str" THEN l.s ELSE NIL
FieldOf(e) == LET l == e.a[1]  r == e.a[2] IN
              IF r.k \in {"key", "val"} THEN r.k ELSE IF l.k \in {"key", "val"} THEN l.k ELSE "val"
KeyOnLeft(e) == e.a[1].k = "key"

AllStr(items) == \A i \in 1..Len(items) : items[i].k = "str"

RECURSIVE Dedup(_, _, _)
Dedup(s, i, acc) == IF i > Len(s) THEN acc
                    ELSE IF \E j \in 1..Len(acc) : acc[j] = s[i] THEN Dedup(s, i + 1, acc)
                    ELSE Dedup(s, i + 1, Append(acc, s[i]))

\* optimizeGtGteExpr / optimizeLtLteExpr: key > '' is everything; key < '' nothing; key <= '' the empty key
From(lit) == IF lit = <<>> THEN FULL ELSE RANGE(lit, NIL)
UpTo(lit, incl) == IF lit = <<>> THEN (IF incl THEN MGET(<<lit>>) ELSE EMPTY) ELSE RANGE(NIL, lit)

AtomST(e) ==
  IF e.k = "bool" THEN (IF e.n = 1 THEN FULL ELSE EMPTY)
  ELSE IF e.k # "bin" THEN FULL
  ELSE LET lit == KeyLitOf(e)  fld == FieldOf(e)
           pinned == fld = "key" /\ lit # NIL
           mirrored == ~Bug_LiteralLeft /\ ~KeyOnLeft(e)     \* 'lit' op key
       IN CASE e.op = "="  -> IF pinned THEN MGET(<<lit>>) ELSE FULL
            [] e.op = "^=" -> IF pinned THEN (IF mirrored THEN FULL ELSE PREFIX(lit)) ELSE FULL
            [] e.op \in {">", ">="} ->
                 IF ~pinned THEN FULL
                 ELSE IF mirrored THEN UpTo(lit, e.op = ">=")          \* 'lit' > key  is  key < 'lit'
                 ELSE From(lit)
            [] e.op \in {"<", "<="} ->
                 IF ~pinned THEN FULL
                 ELSE IF mirrored THEN From(lit)
                 ELSE UpTo(lit, e.op = "<=")
            [] e.op = "in" ->
                 IF e.a[1].k = "key" /\ e.a[2].k = "list" /\ Len(e.a[2].a) > 0 /\ AllStr(e.a[2].a)
                 THEN MGET([i \in 1..Len(e.a[2].a) |-> e.a[2].a[i].s]) ELSE FULL
            [] e.op = "between" ->
                 IF e.a[1].k = "key" /\ e.a[2].k = "list" /\ Len(e.a[2].a) = 2 /\ AllStr(e.a[2].a)
                 THEN (IF LexLess(e.a[2].a[2].s, e.a[2].a[1].s) THEN FULL          \* reversed bounds never narrow the scan
                       ELSE RANGE(e.a[2].a[1].s, e.a[2].a[2].s)) ELSE FULL
            [] OTHER -> FULL

(* inRange(start, end, val, isEnd) *)
inRange(start, end, val, isEnd) ==
  IF start = NIL /\ end # NIL THEN
     (IF val = NIL THEN ~isEnd ELSE Cmp(end, val) >= 0)
  ELSE IF start # NIL /\ end = NIL THEN
     (IF val = NIL THEN isEnd ELSE Cmp(start, val) <= 0)
  ELSE IF start # NIL /\ end # NIL /\ val = NIL /\ ~Bug_NilInBounded THEN FALSE    \* an unbounded endpoint is never inside a bounded range
  ELSE Cmp(B(start), B(val)) <= 0 /\ Cmp(B(end), B(val)) >= 0

IntersectMget(l, r) == LET ks == SelectSeq(l.keys, LAMBDA k : \E j \in 1..Len(r.keys) : r.keys[j] = k)
                       IN IF ks = <<>> THEN EMPTY ELSE MGET(Dedup(ks, 1, <<>>))
UnionMget(l, r) == MGET(Dedup(l.keys \o r.keys, 1, <<>>))
IntersectPrefix(l, r) == LET a == l.keys[1]  b == r.keys[1] IN
   IF a = b THEN l ELSE IF HasPrefix(b, a) THEN r ELSE IF HasPrefix(a, b) THEN l ELSE EMPTY
UnionPrefix(l, r) == LET a == l.keys[1]  b == r.keys[1] IN
   IF a = b THEN l ELSE IF HasPrefix(b, a) THEN l ELSE IF HasPrefix(a, b) THEN r ELSE FULL

Norm(st) == LET s == st.keys[1]  e == st.keys[2] IN
   IF s # NIL /\ e # NIL /\ Cmp(s, e) > 0 THEN <<e, s>> ELSE <<s, e>>
Finish(ns, ne) == IF ns = NIL /\ ne = NIL THEN FULL
                  ELSE IF (Bug_NilInBounded \/ (ns # NIL /\ ne # NIL)) /\ Cmp(B(ns), B(ne)) = 0 THEN MGET(<<B(ns)>>)
                  ELSE RANGE(ns, ne)

\* hull bounds with nil = unbounded
MinStart(a, b) == IF a = NIL \/ b = NIL THEN NIL ELSE IF Cmp(a, b) <= 0 THEN a ELSE b
MaxEnd(a, b)   == IF a = NIL \/ b = NIL THEN NIL ELSE IF Cmp(a, b) >= 0 THEN a ELSE b

IntersectRange(l, r) ==
  LET ln == Norm(l)  rn == Norm(r)
      ls == ln[1]  le == ln[2]  rs == rn[1]  re == rn[2] IN
  IF Cmp(B(ls), B(rs)) = 0 /\ Cmp(B(le), B(re)) = 0 THEN l
  ELSE IF ls = NIL /\ rs = NIL /\ le = NIL /\ re = NIL THEN FULL
  ELSE IF inRange(ls, le, rs, FALSE) /\ ~inRange(ls, le, re, TRUE) THEN Finish(rs, le)
  ELSE IF inRange(rs, re, ls, FALSE) /\ ~inRange(rs, re, le, TRUE) THEN Finish(ls, re)
  ELSE IF inRange(ls, le, rs, FALSE) /\ inRange(ls, le, re, TRUE) THEN Finish(rs, re)
  ELSE IF inRange(rs, re, ls, FALSE) /\ inRange(rs, re, le, TRUE) THEN Finish(ls, le)
  ELSE IF ~inRange(ls, le, rs, FALSE) /\ ~inRange(ls, le, re, TRUE) THEN EMPTY
  ELSE FULL

UnionRange(l, r) ==
  LET ln == Norm(l)  rn == Norm(r)
      ls == ln[1]  le == ln[2]  rs == rn[1]  re == rn[2] IN
  IF Cmp(B(ls), B(rs)) = 0 /\ Cmp(B(le), B(re)) = 0 THEN l
  ELSE IF ls = NIL /\ rs = NIL /\ le = NIL /\ re = NIL THEN FULL
  ELSE IF inRange(ls, le, rs, FALSE) /\ ~inRange(ls, le, re, TRUE) THEN Finish(ls, re)
  ELSE IF inRange(rs, re, ls, FALSE) /\ ~inRange(rs, re, le, TRUE) THEN Finish(rs, le)
  ELSE IF inRange(ls, le, rs, FALSE) /\ inRange(ls, le, re, TRUE) THEN Finish(ls, le)
  ELSE IF inRange(rs, re, ls, FALSE) /\ inRange(rs, re, le, TRUE) THEN Finish(rs, re)
  ELSE IF ~inRange(ls, le, rs, FALSE) /\ ~inRange(ls, le, re, TRUE) THEN
       IF Bug_DisjointUnion THEN
            (IF inRange(ls, rs, le, TRUE) THEN Finish(ls, re)
             ELSE IF inRange(rs, ls, re, TRUE) THEN Finish(rs, le)
             ELSE FULL)
       ELSE Finish(MinStart(ls, rs), MaxEnd(le, re))       \* covering hull
  ELSE FULL

IntersectMgetPrefix(m, p) == LET ks == SelectSeq(m.keys, LAMBDA k : HasPrefix(k, p.keys[1]))
                             IN IF ks = <<>> THEN EMPTY ELSE MGET(ks)
UnionMgetPrefix(m, p) == IF \E i \in 1..Len(m.keys) : ~HasPrefix(m.keys[i], p.keys[1]) THEN FULL ELSE p
IntersectMgetRange(m, r) == LET ks == SelectSeq(m.keys, LAMBDA k : inRange(r.keys[1], r.keys[2], k, FALSE))
                            IN IF ks = <<>> THEN EMPTY ELSE MGET(ks)
UnionMgetRange(m, r) ==
  LET rs == r.keys[1]  re == r.keys[2] IN
  IF \E i \in 1..Len(m.keys) : ~inRange(rs, re, m.keys[i], FALSE) THEN
     IF Len(m.keys) = 1 THEN
        LET mk == m.keys[1] IN
        IF rs # NIL /\ Cmp(mk, rs) < 0 THEN RANGE(mk, re)
        ELSE IF re # NIL /\ Cmp(re, mk) < 0 THEN RANGE(rs, mk)
        ELSE FULL
     ELSE FULL
  ELSE r
IntersectPrefixRange(p, r) ==
  LET ps == p.keys[1]  rs == r.keys[1]  re == r.keys[2] IN
  IF inRange(rs, re, ps, FALSE) THEN
     (IF (Bug_NilInBounded \/ re # NIL) /\ HasPrefix(B(re), ps) THEN (IF ps = B(re) THEN MGET(<<ps>>) ELSE RANGE(ps, re)) ELSE p)
  ELSE IF rs # NIL /\ HasPrefix(rs, ps) THEN r
  ELSE IF re # NIL /\ Cmp(re, ps) < 0 THEN EMPTY
  ELSE IF rs # NIL /\ Cmp(ps, rs) < 0 THEN EMPTY
  ELSE FULL
\* a range from rs with no end; with no start either it is a full scan (never RANGE[nil, nil])
OpenFrom(rs) == IF rs = NIL /\ ~Bug_NilNilRange THEN FULL ELSE RANGE(rs, NIL)
UnionPrefixRange(p, r) ==
  LET ps == p.keys[1]  rs == r.keys[1]  re == r.keys[2] IN
  IF inRange(rs, re, ps, FALSE) THEN
     (IF re # NIL /\ HasPrefix(re, ps) THEN OpenFrom(rs) ELSE r)
  ELSE IF rs # NIL /\ Cmp(ps, rs) < 0 /\ ~HasPrefix(rs, ps) THEN (IF ps = re THEN MGET(<<ps>>) ELSE RANGE(ps, re))
  ELSE IF rs # NIL /\ re # NIL /\ HasPrefix(rs, ps) /\ ~HasPrefix(re, ps) THEN (IF ps = re THEN MGET(<<ps>>) ELSE RANGE(ps, re))
  ELSE IF rs # NIL /\ re # NIL /\ HasPrefix(rs, ps) /\ HasPrefix(re, ps) THEN p
  ELSE IF re # NIL /\ Cmp(re, ps) < 0 THEN OpenFrom(rs)
  ELSE FULL

AndST(l, r) ==
  IF l.tp = r.tp THEN
     CASE l.tp = "MGET" -> IntersectMget(l, r) [] l.tp = "PREFIX" -> IntersectPrefix(l, r)
       [] l.tp = "RANGE" -> IntersectRange(l, r) [] OTHER -> l
  ELSE LET lp == IF Prio(l) < Prio(r) THEN l ELSE r
           hp == IF Prio(l) < Prio(r) THEN r ELSE l IN
       IF lp.tp = "MGET" /\ hp.tp = "PREFIX" THEN IntersectMgetPrefix(lp, hp)
       ELSE IF hp.tp = "RANGE" /\ lp.tp = "MGET" THEN IntersectMgetRange(lp, hp)
       ELSE IF hp.tp = "RANGE" /\ lp.tp = "PREFIX" THEN IntersectPrefixRange(lp, hp)
       ELSE lp
OrST(l, r) ==
  IF l.tp = r.tp THEN
     CASE l.tp = "MGET" -> UnionMget(l, r) [] l.tp = "PREFIX" -> UnionPrefix(l, r)
       [] l.tp = "RANGE" -> UnionRange(l, r) [] OTHER -> l
  ELSE LET lp == IF Prio(l) < Prio(r) THEN l ELSE r
           hp == IF Prio(l) < Prio(r) THEN r ELSE l IN
       IF lp.tp = "MGET" /\ hp.tp = "PREFIX" THEN UnionMgetPrefix(lp, hp)
       ELSE IF hp.tp = "RANGE" /\ lp.tp = "MGET" THEN UnionMgetRange(lp, hp)
       ELSE IF hp.tp = "RANGE" /\ lp.tp = "PREFIX" THEN UnionPrefixRange(lp, hp)
       ELSE hp

RECURSIVE PlanOf(_)
PlanOf(e) == IF e.k = "bin" /\ e.op \in AndOps THEN AndST(PlanOf(e.a[1]), PlanOf(e.a[2]))
             ELSE IF e.k = "bin" /\ e.op \in OrOps THEN OrST(PlanOf(e.a[1]), PlanOf(e.a[2]))
             ELSE AtomST(e)

\* the region the engine finally scans (Optimize(): a PREFIX without key or a malformed RANGE is a full scan)
Region(e) == PlanOf(e)

-----------------------------------------------------------------------------
(* CONTRACT for C18: what a key-pinning clause licenses the engine to read *)

\* top-level conjuncts
RECURSIVE Conjuncts(_)
Conjuncts(e) == IF e.k = "bin" /\ e.op \in AndOps THEN Conjuncts(e.a[1]) \o Conjuncts(e.a[2]) ELSE <<e>>

\* canonical pinning shapes: key on the left, literal(s) on the right
IsKeyLit(e) == e.k = "bin" /\ e.a[1].k = "key" /\ e.a[2].k = "str"
IsLitKey(e) == e.k = "bin" /\ e.a[1].k = "str" /\ e.a[2].k = "key"
NoPin == [tp |-> "NONE", ks |-> <<>>, lo |-> NIL, hi |-> NIL]
NoRead == [tp |-> "NOREAD", ks |-> <<>>, lo |-> NIL, hi |-> NIL]
Points(ks) == [tp |-> "POINTS", ks |-> ks, lo |-> NIL, hi |-> NIL]
FromPin(lit) == IF lit = <<>> THEN NoPin ELSE [tp |-> "RANGE", ks |-> <<>>, lo |-> lit, hi |-> NIL]
UpToPin(lit, incl) == IF lit = <<>> THEN (IF incl THEN Points(<<lit>>) ELSE NoRead)
                      ELSE [tp |-> "RANGE", ks |-> <<>>, lo |-> NIL, hi |-> lit]
PinOf(e) ==       \* an envelope record, or tp = "NONE" when the conjunct pins nothing
  IF e.k = "bool" /\ e.n = 0 THEN NoRead
  ELSE IF e.k # "bin" THEN NoPin
  \* `false` written as a comparison of two different literals (a bare false is refused under & by the checker)
  ELSE IF e.op = "=" /\ e.a[1].k = "str" /\ e.a[2].k = "str" /\ e.a[1].s # e.a[2].s THEN NoRead
  ELSE IF e.op = "=" /\ IsKeyLit(e) THEN Points(<<e.a[2].s>>)
  ELSE IF e.op = "=" /\ IsLitKey(e) THEN Points(<<e.a[1].s>>)
  ELSE IF e.op = "in" /\ e.a[1].k = "key" /\ e.a[2].k = "list" /\ Len(e.a[2].a) > 0 /\ AllStr(e.a[2].a)
       THEN Points([i \in 1..Len(e.a[2].a) |-> e.a[2].a[i].s])
  ELSE IF e.op = "^=" /\ IsKeyLit(e) THEN [tp |-> "PREFIX", ks |-> <<>>, lo |-> e.a[2].s, hi |-> NIL]
  ELSE IF e.op \in {">", ">="} /\ IsKeyLit(e) THEN FromPin(e.a[2].s)
  ELSE IF e.op \in {"<", "<="} /\ IsKeyLit(e) THEN UpToPin(e.a[2].s, e.op = "<=")
  ELSE IF e.op \in {">", ">="} /\ IsLitKey(e) THEN UpToPin(e.a[1].s, e.op = ">=")     \* 'lit' > key
  ELSE IF e.op \in {"<", "<="} /\ IsLitKey(e) THEN FromPin(e.a[1].s)
  ELSE IF e.op = "between" /\ e.a[1].k = "key" /\ e.a[2].k = "list" /\ Len(e.a[2].a) = 2 /\ AllStr(e.a[2].a)
       THEN [tp |-> "RANGE", ks |-> <<>>, lo |-> e.a[2].a[1].s, hi |-> e.a[2].a[2].s]
  ELSE NoPin

Pins(e) == SelectSeq([i \in 1..Len(Conjuncts(e)) |-> PinOf(Conjuncts(e)[i])], LAMBDA x : x.tp # "NONE")

\* closed-interval view of an envelope
EnvIn(key, env) ==
  CASE env.tp = "POINTS" -> \E i \in 1..Len(env.ks) : env.ks[i] = key
    [] env.tp = "PREFIX" -> HasPrefix(key, env.lo)
    [] env.tp = "RANGE"  -> (env.lo = NIL \/ Cmp(env.lo, key) <= 0) /\ (env.hi = NIL \/ Cmp(key, env.hi) <= 0)
    [] OTHER -> FALSE
EnvBefore(key, env) ==        \* key lies before the start of the region
  CASE env.tp = "PREFIX" -> LexLess(key, env.lo)
    [] env.tp = "RANGE"  -> env.lo # NIL /\ LexLess(key, env.lo)
    [] OTHER -> FALSE

\* two envelopes that no key can satisfy together ("unsatisfiable on its face")
Disjoint(a, b) ==
  CASE a.tp = "POINTS" /\ b.tp = "POINTS" -> \A i \in 1..Len(a.ks) : \A j \in 1..Len(b.ks) : a.ks[i] # b.ks[j]
    [] a.tp = "PREFIX" /\ b.tp = "PREFIX" -> ~HasPrefix(a.lo, b.lo) /\ ~HasPrefix(b.lo, a.lo)
    [] a.tp = "RANGE" /\ b.tp = "RANGE" ->
         \/ (a.hi # NIL /\ b.lo # NIL /\ LexLess(a.hi, b.lo))
         \/ (b.hi # NIL /\ a.lo # NIL /\ LexLess(b.hi, a.lo))
    [] OTHER -> FALSE
FaceUnsat(e) == LET ps == Pins(e) IN
  \/ \E i \in 1..Len(ps) : ps[i].tp = "NOREAD"
  \/ \E i \in 1..Len(ps) : \E j \in 1..Len(ps) : i < j /\ Disjoint(ps[i], ps[j])

=============================================================================
