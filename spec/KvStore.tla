------------------------------- MODULE KvStore -------------------------------
(***************************************************************************)
(* CONTRACT of the storage the engine runs on ("a storage with snapshot    *)
(* cursors"): a map ordered by byte-wise key comparison.  The eight        *)
(* operations of kv.go as pure functions on the abstract state, used by    *)
(* the system specification (Kvql.tla) and by the trace specifications.    *)
(***************************************************************************)
EXTENDS KvExec

\* the map as a sequence of [k, v] records in ascending key order (so a snapshot is the state itself)
EmptyMap == <<>>
KV(k, v) == [k |-> k, v |-> v]
Has(m, k) == \E i \in 1..Len(m) : m[i].k = k
Get(m, k) == m[CHOOSE i \in 1..Len(m) : m[i].k = k].v
InsPos(m, k) == Cardinality({i \in 1..Len(m) : LexLess(m[i].k, k)}) + 1
MPut(m, k, v) == IF Has(m, k) THEN [i \in 1..Len(m) |-> IF m[i].k = k THEN KV(k, v) ELSE m[i]]
                 ELSE LET p == InsPos(m, k) IN SubSeq(m, 1, p - 1) \o <<KV(k, v)>> \o SubSeq(m, p, Len(m))
MDel(m, k) == SelectSeq(m, LAMBDA x : x.k # k)
RECURSIVE MBatchPut(_, _, _, _)
MBatchPut(m, ks, vs, i) == IF i > Len(ks) THEN m ELSE MBatchPut(MPut(m, ks[i], vs[i]), ks, vs, i + 1)
RECURSIVE MBatchDel(_, _, _)
MBatchDel(m, ks, i) == IF i > Len(ks) THEN m ELSE MBatchDel(MDel(m, ks[i]), ks, i + 1)
\* from a sequence of pairs already in key order (a recorded snapshot), or from an arbitrary pair list
MapOfSorted(pairs) == [i \in 1..Len(pairs) |-> KV(pairs[i].k, pairs[i].v)]
MapOf(pairs) == MBatchPut(<<>>, [i \in 1..Len(pairs) |-> pairs[i].k], [i \in 1..Len(pairs) |-> pairs[i].v], 1)

\* Cursor(): a snapshot of the current contents in key order
Snapshot(m) == m
\* Seek(k): first pair with key >= k
SeekPos(snap, k) == Cardinality({i \in 1..Len(snap) : LexLess(snap[i].k, k)}) + 1

\* the contract's effect of a statement on a store (sequence in key order)
ApplyStmt(stmt, store) ==
  LET mp == MapOfSorted(store) IN
  IF stmt.kind = "put" THEN
       LET pv == PutVals(stmt) IN
       IF PutStatus(stmt) # "ok" THEN store
       ELSE LET sn == Snapshot(MBatchPut(mp, [i \in 1..Len(pv) |-> pv[i].k.s], [i \in 1..Len(pv) |-> pv[i].v.s], 1))
            IN [i \in 1..Len(sn) |-> [k |-> sn[i].k, v |-> sn[i].v, doc |-> VUnspec]]
  ELSE IF stmt.kind = "remove" THEN
       LET rv == RemoveVals(stmt) IN
       IF RemoveStatus(stmt) # "ok" THEN store ELSE Without(store, [i \in 1..Len(rv) |-> rv[i].s])
  ELSE IF stmt.kind = "delete" THEN Without(store, DeleteKeys(stmt, store))
  ELSE store


MutatingOps == {"Put", "BatchPut", "Delete", "BatchDelete"}
ReadOps == {"Get", "Cursor", "Seek", "Next"}
=============================================================================
