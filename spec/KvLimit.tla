------------------------------- MODULE KvLimit -------------------------------
(***************************************************************************)
(* DESIGN layer for C08: the offset/count state machine of                 *)
(* FinalLimitPlan.Batch / LimitPlan.Batch / AggregatePlan.Batch over a     *)
(* child that delivers rows in variable-sized batches (the scan refill     *)
(* loop of scan_plan.go *.Batch), and of the row-at-a-time twin.           *)
(* Rows are abstracted to their positions in the unlimited result, so the  *)
(* contract is simply: the emitted positions are S+1 .. min(S+C, M), in    *)
(* order, after finitely many polls.                                       *)
(* Bug_KeepSkippedBatch is the historic defect: a child batch that holds   *)
(* exactly the rows still to skip is emitted instead of dropped.           *)
(***************************************************************************)
EXTENDS Integers, Sequences, FiniteSets, TLC
CONSTANTS MaxN, MaxB, Bug_KeepSkippedBatch

VARIABLES pass,           \* pass[i] : does the i-th scanned pair satisfy WHERE
          B, S, C,        \* batch size, LIMIT offset, LIMIT count
          mode,           \* "row" | "batch"
          cur,            \* pairs consumed from the storage cursor
          skips, current, \* the limit node's counters
          out, done
vars == <<pass, B, S, C, mode, cur, skips, current, out, done>>

N == Len(pass)
Passing == SelectSeq([i \in 1..N |-> i], LAMBDA i : pass[i])       \* the unlimited result (positions of passing pairs)
Take(s, off, n) == SubSeq(s, off + 1, IF off + n > Len(s) THEN Len(s) ELSE off + n)
Expected == Take(Passing, S, C)

\* ---- child: scan.Batch = refill rounds of up to B cursor reads until B rows passed or the cursor ends
RECURSIVE ScanLoop(_, _, _)
ScanLoop(c, acc, cnt) ==
  IF c >= N THEN <<acc, c>>
  ELSE LET hi  == IF c + B > N THEN N ELSE c + B
           got == SelectSeq([i \in 1..(hi - c) |-> c + i], LAMBDA i : pass[i])
       IN IF c + B > N THEN <<acc \o got, N>>                       \* the cursor ended inside this round
          ELSE IF cnt + Len(got) >= B THEN <<acc \o got, hi>>
          ELSE ScanLoop(hi, acc \o got, cnt + Len(got))
ScanBatch(c) == ScanLoop(c, <<>>, 0)
\* child row-at-a-time: next passing pair after c, or 0
NextPassing(c) == IF \E i \in (c + 1)..N : pass[i] THEN CHOOSE i \in (c + 1)..N : pass[i] /\ \A j \in (c + 1)..(i - 1) : ~pass[j] ELSE 0

\* ---- limit node, batch form
RECURSIVE SkipLoop(_, _)
SkipLoop(c, sk) ==
  IF sk >= S THEN [cur |-> c, skips |-> sk, rows |-> <<>>, eof |-> FALSE]
  ELSE LET r == ScanBatch(c)  rows == r[1]  n == Len(rows)  rest == S - sk IN
       IF n = 0 THEN [cur |-> r[2], skips |-> sk, rows |-> <<>>, eof |-> TRUE]
       ELSE IF n <= rest THEN
            (IF sk + n < S THEN SkipLoop(r[2], sk + n)
             ELSE [cur |-> r[2], skips |-> sk + n, rows |-> IF Bug_KeepSkippedBatch THEN rows ELSE <<>>, eof |-> FALSE])
       ELSE [cur |-> r[2], skips |-> S, rows |-> SubSeq(rows, rest + 1, n), eof |-> FALSE]
RECURSIVE FillLoop(_, _, _, _)
FillLoop(c, curr, ret, cnt) ==
  LET r == ScanBatch(c)  rows == r[1] IN
  IF Len(rows) = 0 THEN [cur |-> r[2], current |-> curr, ret |-> ret]
  ELSE LET room == C - curr
           take == IF Len(rows) < room THEN Len(rows) ELSE room
           ret2 == ret \o SubSeq(rows, 1, take)
       IN IF curr + take >= C \/ cnt + take >= B THEN [cur |-> r[2], current |-> curr + take, ret |-> ret2]
          ELSE FillLoop(r[2], curr + take, ret2, cnt + take)
LimitBatch ==
  LET sk == SkipLoop(cur, skips) IN
  IF sk.eof THEN [cur |-> sk.cur, skips |-> sk.skips, current |-> current, ret |-> <<>>]
  ELSE LET room == IF C - current < 0 THEN 0 ELSE C - current
           take == IF Len(sk.rows) < room THEN Len(sk.rows) ELSE room
           ret1 == SubSeq(sk.rows, 1, take)
           cur1 == current + take
       IN IF cur1 >= C THEN [cur |-> sk.cur, skips |-> sk.skips, current |-> cur1, ret |-> ret1]
          ELSE LET f == FillLoop(sk.cur, cur1, ret1, take) IN [cur |-> f.cur, skips |-> sk.skips, current |-> f.current, ret |-> f.ret]

\* ---- limit node, row form: skip, then emit while current < C
RECURSIVE RowSkip(_, _)
RowSkip(c, sk) == IF sk >= S THEN [cur |-> c, skips |-> sk, eof |-> FALSE]
                  ELSE LET nx == NextPassing(c) IN IF nx = 0 THEN [cur |-> N, skips |-> sk, eof |-> TRUE] ELSE RowSkip(nx, sk + 1)
LimitNext ==
  LET sk == RowSkip(cur, skips) IN
  IF sk.eof \/ current >= C THEN [cur |-> sk.cur, skips |-> sk.skips, current |-> current, ret |-> <<>>]
  ELSE LET nx == NextPassing(sk.cur) IN
       IF nx = 0 THEN [cur |-> N, skips |-> sk.skips, current |-> current, ret |-> <<>>]
       ELSE [cur |-> nx, skips |-> sk.skips, current |-> current + 1, ret |-> <<nx>>]

Init == /\ \E n \in 0..MaxN : pass \in [1..n -> BOOLEAN]
        /\ B \in 1..MaxB /\ S \in 0..(MaxN + 1) /\ C \in 0..(MaxN + 1) /\ mode \in {"row", "batch"}
        /\ cur = 0 /\ skips = 0 /\ current = 0 /\ out = <<>> /\ done = FALSE
Poll == /\ ~done
        /\ LET r == IF mode = "batch" THEN LimitBatch ELSE LimitNext IN
           /\ cur' = r.cur /\ skips' = r.skips /\ current' = r.current
           /\ out' = out \o r.ret
           /\ done' = (Len(r.ret) = 0)
        /\ UNCHANGED <<pass, B, S, C, mode>>
Next == Poll
Spec == Init /\ [][Next]_vars /\ WF_vars(Next)

PrefixOK == Len(out) <= Len(Expected) /\ out = SubSeq(Expected, 1, Len(out))     \* never a wrong or early row
FinalOK == done => out = Expected                                                  \* exactly the slice at the end
CountersOK == skips <= S /\ current <= C /\ cur <= N
Terminates == <>done
=============================================================================
