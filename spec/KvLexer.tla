------------------------------- MODULE KvLexer -------------------------------
(***************************************************************************)
(* Tokens.                                                                 *)
(*                                                                         *)
(* CONTRACT: Tokenize(text) - the declarative, maximal-munch token         *)
(*   sequence of a well-formed query text: every token is [tp, data, pos]  *)
(*   with pos the 0-based byte offset where its text begins; quoted        *)
(*   literals are kept byte for byte; two-character operators are single   *)
(*   tokens; words are case-folded and classified.  Inputs the documents   *)
(*   are silent about (unterminated quote, lone ^ or ~, control bytes,     *)
(*   bytes >= 128 in words) yield the marker token tp = "UNSPEC".          *)
(*                                                                         *)
(* DESIGN: the byte-at-a-time machine of Lexer.Split (lexer.go), one       *)
(*   operator Step per iteration of its loop, with the historic defects    *)
(*   behind Bug_* switches.                                                *)
(***************************************************************************)
EXTENDS KvBase

CONSTANTS Bug_StaleTokStart,        \* tokStart / tokStartPos not reset after a closing quote ('a'and -> word a'a)
          Bug_NoFlushBeforeQuote,   \* a pending word is not flushed when a quote opens (1"" loses the word)
          Bug_ArithBeforeEq         \* * + - / directly followed by = is dropped

SP == 32  SQ == 39  DQ == 34  BT == 96
Quotes == {SQ, DQ, BT}
EqC == 61
TwoFirst == {94, 126, 33, 60, 62}            \* ^ ~ ! < >  (followed by = they form one operator)
SingleOps == {61, 33, 42, 43, 45, 47, 62, 60, 38, 124}     \* = ! * + - / > < & |
Punct == {40, 41, 91, 93, 44, 59}            \* ( ) [ ] , ;
Special == Quotes \cup TwoFirst \cup SingleOps \cup Punct \cup {SP}

Tok(tp, data, pos) == [tp |-> tp, data |-> data, pos |-> pos]
UnspecTok == Tok("UNSPEC", <<>>, 0)

PunctKind(c) == CASE c = 40 -> "(" [] c = 41 -> ")" [] c = 91 -> "[" [] c = 93 -> "]" [] c = 44 -> "SEP" [] OTHER -> "SEMI"

\* ---- word classification (buildToken) ----
Str(s) == s
KwSelect == <<115,101,108,101,99,116>>  KwWhere == <<119,104,101,114,101>>  KwKey == <<107,101,121>>  KwValue == <<118,97,108,117,101>>
KwLimit == <<108,105,109,105,116>>  KwOrder == <<111,114,100,101,114>>  KwBy == <<98,121>>  KwAsc == <<97,115,99>>  KwDesc == <<100,101,115,99>>
KwTrue == <<116,114,117,101>>  KwFalse == <<102,97,108,115,101>>  KwAs == <<97,115>>  KwGroup == <<103,114,111,117,112>>
KwIn == <<105,110>>  KwBetween == <<98,101,116,119,101,101,110>>  KwPut == <<112,117,116>>  KwRemove == <<114,101,109,111,118,101>>
KwAnd == <<97,110,100>>  KwOr == <<111,114>>  KwDelete == <<100,101,108,101,116,101>>
WordInf == {<<105,110,102>>, <<110,97,110>>, <<105,110,102,105,110,105,116,121>>}

DotCount(w) == Cardinality({i \in 1..Len(w) : w[i] = 46})
DigitCount(w) == Cardinality({i \in 1..Len(w) : IsDigit(w[i])})
WordKind(w) ==       \* w already lower-cased
  CASE w = KwSelect -> "SELECT" [] w = KwWhere -> "WHERE" [] w = KwKey -> "KEY" [] w = KwValue -> "VALUE" [] w = KwLimit -> "LIMIT"
    [] w = KwOrder -> "ORDER" [] w = KwBy -> "BY" [] w = KwAsc -> "ASC" [] w = KwDesc -> "DESC" [] w = KwTrue -> "true" [] w = KwFalse -> "false"
    [] w = KwAs -> "AS" [] w = KwGroup -> "GROUP" [] w = KwPut -> "PUT" [] w = KwRemove -> "REMOVE" [] w = KwDelete -> "DELETE"
    [] w \in {KwIn, KwBetween, KwAnd, KwOr} -> "OP"
    [] AllDigits(w) -> IF Len(w) <= 18 THEN "NUM" ELSE "?"
    [] DigitCount(w) + DotCount(w) = Len(w) /\ DotCount(w) = 1 /\ DigitCount(w) >= 1 -> "FLOAT"
    [] w \in WordInf -> "?"
    [] DigitCount(w) >= 1 /\ (\E i \in 1..Len(w) : w[i] \in {101, 120, 112, 95}) -> "?"      \* exponent / hex / underscore forms
    [] OTHER -> "NAME"

WordByteOK(c) == c > 32 /\ c < 127
RECURSIVE WordEnd(_, _)
WordEnd(t, i) == IF i > Len(t) \/ t[i] \in Special THEN i - 1 ELSE WordEnd(t, i + 1)
RECURSIVE QuoteEnd(_, _, _)
QuoteEnd(t, i, q) == IF i > Len(t) THEN 0 ELSE IF t[i] = q THEN i ELSE QuoteEnd(t, i + 1, q)

\* ---- CONTRACT ----
RECURSIVE TokenizeFrom(_, _)
TokenizeFrom(t, i) ==
  IF i > Len(t) THEN <<>>
  ELSE LET c == t[i] IN
    IF c = SP THEN TokenizeFrom(t, i + 1)
    ELSE IF c \in Quotes THEN
         LET j == QuoteEnd(t, i + 1, c) IN
         IF j = 0 THEN <<UnspecTok>>
         ELSE <<Tok(IF c = BT THEN "NAME" ELSE "STR", SubSeq(t, i + 1, j - 1), i - 1)>> \o TokenizeFrom(t, j + 1)
    ELSE IF c \in TwoFirst /\ i < Len(t) /\ t[i + 1] = EqC THEN <<Tok("OP", <<c, EqC>>, i - 1)>> \o TokenizeFrom(t, i + 2)
    ELSE IF c \in {94, 126} THEN <<UnspecTok>>                               \* lone ^ or ~
    ELSE IF c \in SingleOps THEN <<Tok("OP", <<c>>, i - 1)>> \o TokenizeFrom(t, i + 1)
    ELSE IF c \in Punct THEN <<Tok(PunctKind(c), <<c>>, i - 1)>> \o TokenizeFrom(t, i + 1)
    ELSE LET j == WordEnd(t, i)
             w == SubSeq(t, i, j)
         IN IF \E x \in 1..Len(w) : ~WordByteOK(w[x]) THEN <<UnspecTok>>
            ELSE <<Tok(WordKind(Lower(w)), Lower(w), i - 1)>> \o TokenizeFrom(t, j + 1)
Tokenize(t) == TokenizeFrom(t, 1)
Specified(toks) == \A i \in 1..Len(toks) : toks[i].tp # "UNSPEC"
KindData(toks) == [i \in 1..Len(toks) |-> <<toks[i].tp, toks[i].data>>]

\* contract-level statements of the property, checked on Tokenize itself (they guard the oracle)
TokenFaithful(t, toks) ==
  \A i \in 1..Len(toks) :
     LET k == toks[i] IN
     IF k.tp \in {"STR", "NAME"} /\ k.pos + 1 <= Len(t) /\ t[k.pos + 1] \in Quotes THEN
          /\ k.pos + 2 + Len(k.data) <= Len(t)
          /\ SubSeq(t, k.pos + 2, k.pos + 1 + Len(k.data)) = k.data
          /\ t[k.pos + 2 + Len(k.data)] = t[k.pos + 1]
     ELSE /\ k.pos + Len(k.data) <= Len(t)
          /\ Lower(SubSeq(t, k.pos + 1, k.pos + Len(k.data))) = k.data
Cover(t, toks) ==       \* tokens in offset order, not overlapping, every non-space byte inside exactly one token
  LET ext(k) == IF k.tp \in {"STR", "NAME"} /\ t[k.pos + 1] \in Quotes THEN Len(k.data) + 2 ELSE Len(k.data) IN
  /\ \A i \in 1..(Len(toks) - 1) : toks[i].pos + ext(toks[i]) <= toks[i + 1].pos
  /\ \A x \in 1..Len(t) : t[x] # SP => \E i \in 1..Len(toks) : toks[i].pos < x /\ x <= toks[i].pos + ext(toks[i])

\* an optional boundary: a position between two tokens where a space may be inserted or removed
InsertAt(t, p) == SubSeq(t, 1, p) \o <<SP>> \o SubSeq(t, p + 1, Len(t))
TokenBoundaries(t, toks) == {toks[i].pos : i \in 1..Len(toks)} \ {0}
SpacingIrrelevant(t) ==
  LET toks == Tokenize(t) IN
  Specified(toks) => \A p \in TokenBoundaries(t, toks) :
       (LET t2 == InsertAt(t, p) IN Specified(Tokenize(t2)) /\ KindData(Tokenize(t2)) = KindData(toks))

-----------------------------------------------------------------------------
(* DESIGN: Lexer.Split as a machine.  State = the loop variables.          *)

LexInit == [toks |-> <<>>, strStart |-> FALSE, strChar |-> 0, tokStart |-> 0, tokLen |-> 0, tokStartPos |-> 0, prev |-> 0]

Slice(t, a, n) == SubSeq(t, a + 1, a + n)          \* Go t[a:a+n]
\* buildToken: trim spaces, lower-case, drop empty, classify
TrimSp(s) == LET f == IF \E i \in 1..Len(s) : s[i] # SP THEN CHOOSE i \in 1..Len(s) : s[i] # SP /\ \A j \in 1..(i-1) : s[j] = SP ELSE 0
                 l == IF f = 0 THEN 0 ELSE CHOOSE i \in 1..Len(s) : s[i] # SP /\ \A j \in (i+1)..Len(s) : s[j] = SP
             IN IF f = 0 THEN <<>> ELSE SubSeq(s, f, l)
BuildToken(curr, pos) == LET w == Lower(TrimSp(curr)) IN IF w = <<>> THEN <<>> ELSE <<Tok(WordKind(w), w, pos)>>

\* one loop iteration: byte c at index i (0-based), lookahead nxt (0 at the end), text t
Step(s, t, i, c, nxt) ==
  LET curr  == Slice(t, s.tokStart, Min2(s.tokLen, Len(t) - s.tokStart))
      flush == s.toks \o BuildToken(curr, s.tokStartPos)
      more  == [s EXCEPT !.tokLen = s.tokLen + 1, !.prev = c]
      reset(tk) == [s EXCEPT !.toks = tk, !.tokLen = 0, !.tokStartPos = i + 1, !.tokStart = i + 1, !.prev = c]
  IN
  IF c = SP THEN (IF s.strStart THEN more ELSE reset(flush))
  ELSE IF c \in Quotes THEN
       IF ~s.strStart THEN
            [s EXCEPT !.toks = IF Bug_NoFlushBeforeQuote THEN s.toks ELSE flush,
                      !.tokLen = IF Bug_NoFlushBeforeQuote THEN s.tokLen ELSE 0,
                      !.strStart = TRUE, !.strChar = c, !.tokStartPos = i, !.tokStart = i + 1, !.prev = c]
       ELSE IF s.strChar = c THEN
            [s EXCEPT !.toks = Append(s.toks, Tok(IF c = BT THEN "NAME" ELSE "STR", curr, s.tokStartPos)),
                      !.strStart = FALSE, !.tokLen = 0,
                      !.tokStart = IF Bug_StaleTokStart THEN s.tokStart ELSE i + 1,
                      !.tokStartPos = IF Bug_StaleTokStart THEN s.tokStartPos ELSE i + 1, !.prev = c]
       ELSE more
  ELSE IF c \in {126, 94, 61, 33, 42, 43, 45, 47, 62, 60} THEN
       IF s.strStart THEN more
       ELSE LET single == (nxt # EqC /\ c \in {33, 42, 43, 45, 47, 62, 60}) \/ (~Bug_ArithBeforeEq /\ c \in {42, 43, 45, 47})
                withEq == IF s.prev \in {94, 126, 33, 60, 62} THEN Tok("OP", <<s.prev, EqC>>, i - 1) ELSE Tok("OP", <<EqC>>, i)
                tk == IF single THEN Append(flush, Tok("OP", <<c>>, i))
                      ELSE IF c = EqC THEN Append(flush, withEq)
                      ELSE flush
            IN reset(tk)
  ELSE IF c \in {38, 124} THEN (IF s.strStart THEN more ELSE reset(Append(flush, Tok("OP", <<c>>, i))))
  ELSE IF c \in Punct THEN (IF s.strStart THEN more ELSE reset(Append(flush, Tok(PunctKind(c), <<c>>, i))))
  ELSE more

RECURSIVE RunFrom(_, _, _)
RunFrom(s, t, i) == IF i >= Len(t) THEN s
                    ELSE RunFrom(Step(s, t, i, t[i + 1], IF i + 2 <= Len(t) THEN t[i + 2] ELSE 0), t, i + 1)
Finish(s, t) == IF s.tokLen > 0 THEN s.toks \o BuildToken(Slice(t, s.tokStart, Min2(s.tokLen, Len(t) - s.tokStart)), s.tokStartPos) ELSE s.toks
\* Lexer.Split(t): run to completion
LexSplit(t) == Finish(RunFrom(LexInit, t, 0), t)

=============================================================================
