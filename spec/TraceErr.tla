------------------------------ MODULE TraceErr ------------------------------
(* Trace validation for C17: every record is a positional error the real engine returned for a query
   (or an error object built directly for a grid point), its offset, the padding, the token start
   offsets of the query and the bytes of err.Error() after BindQuery.  Accepted iff the KvErr contract
   holds: the offset is -1 or inside the query (for parse / check errors 0 or a token start) and the
   rendering shows the stretch of the query around the offset with the caret under it. *)
EXTENDS KvErr, KvLexer, Json
Trace == ndJsonDeserialize("errs.ndjson")
VARIABLE i
\* the token starts of the query: from the KvLexer contract when it specifies the text, else as the engine lexed it
TokStarts(c) == LET want == Tokenize(c.q) IN
                IF Specified(want) THEN {want[x].pos : x \in 1..Len(want)} ELSE {c.tokpos[x] : x \in 1..Len(c.tokpos)}
\* the (1-based) index of the quote that opens a literal the text ends in, 0 if every literal is closed (quotes pair left to right,
\* KvLexer!QuoteEnd; texts with a backslash are left alone).  Whatever the lexer makes of such a tail, no token starts INSIDE it.
RECURSIVE OpenQuoteFrom(_, _)
OpenQuoteFrom(t, x) == IF x > Len(t) THEN 0
                       ELSE IF t[x] \in Quotes THEN (LET j == QuoteEnd(t, x + 1, t[x]) IN IF j = 0 THEN x ELSE OpenQuoteFrom(t, j + 1))
                       ELSE OpenQuoteFrom(t, x + 1)
OpenQuote(t) == IF \E x \in 1..Len(t) : t[x] = 92 THEN 0 ELSE OpenQuoteFrom(t, 1)
Verdict(c) ==
  IF c.panic # "" THEN "rendering-panics"
  ELSE IF c.ekind = "syntax" /\ OpenQuote(c.q) > 0 /\ c.pos >= OpenQuote(c.q) /\ c.pos < Len(c.q) THEN "position-inside-unterminated-literal"
  ELSE IF c.q = <<>> /\ c.haslate /\ c.late # c.out THEN "error-text-changed-by-a-later-statement"
  ELSE IF c.ekind # "direct" /\ ~PosValid(c.q, TokStarts(c), c.pos, c.ekind) THEN
       (IF c.pos >= Len(c.q) \/ c.pos < -1 THEN "position-outside-query" ELSE "position-not-a-token-start")
  ELSE IF c.q = <<>> THEN "ok"                                \* no query bound: the plain one-line form is used
  ELSE IF c.pos < -1 \/ c.pos > Len(c.q) THEN "ok"          \* direct objects with impossible offsets: not generated
  ELSE IF ~Rendered(c.q, c.pos, c.pad, c.out) THEN "caret-misaligned"
  \* an error is a value: printing it again after other statements were parsed, bound and printed shows the same text
  ELSE IF c.haslate /\ c.late # c.out THEN "error-text-changed-by-a-later-statement"
  ELSE "ok"
Init == i = 1
Next == /\ i <= Len(Trace) /\ i' = i + 1
        /\ LET v == Verdict(Trace[i]) IN IF v = "ok" THEN TRUE ELSE PrintT(<<"REJECT", Trace[i].id, v>>)
=============================================================================
