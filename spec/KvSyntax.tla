------------------------------ MODULE KvSyntax ------------------------------
(***************************************************************************)
(* Expression syntax (C15).                                                *)
(*                                                                         *)
(* CONTRACT: the documented binding strength                               *)
(*     1  |  or      2  &  and     3  = != ^= ~= > >= < <= in between      *)
(*     4  + -        5  * /        then unary !, call f(..), index x[..]   *)
(*   left-associative, parentheses override, words case-insensitive.       *)
(*   Tree(items) is the tree of a flat operand/operator sequence, defined  *)
(*   declaratively: split at the LAST operator of the LOWEST strength.     *)
(*   Canon(t) is the canonical fully parenthesised rendering.              *)
(*                                                                         *)
(* DESIGN: the recursive-descent / precedence-climbing parser of parser.go *)
(*   (parseExpr, parseBinaryExpr, parseUnaryExpr, parsePrimaryExpr,        *)
(*   parseOperand, parseFuncCall, parseFieldAccess, parseList,             *)
(*   parseBetween) over a token sequence.  Bug_RightAssoc drops the `+1`.  *)
(*                                                                         *)
(* Tokens are records [t, v]: t in {"id","num","str","kw","op","(",")",    *)
(* "[","]",","}; v the (lower-case) text.  Trees are records [k, v, a].    *)
(***************************************************************************)
EXTENDS Integers, Sequences, FiniteSets, TLC

CONSTANT Bug_RightAssoc

Prec(op) == CASE op \in {"|", "or"} -> 1
              [] op \in {"&", "and"} -> 2
              [] op \in {"=", "!=", "^=", "~=", ">", ">=", "<", "<=", "in", "between"} -> 3
              [] op \in {"+", "-"} -> 4
              [] op \in {"*", "/"} -> 5
              [] OTHER -> 0
BinOps == {"|", "or", "&", "and", "=", "!=", "^=", "~=", ">", ">=", "<", "<=", "in", "between", "+", "-", "*", "/"}

T(k, v, a) == [k |-> k, v |-> v, a |-> a]
Leaf(k, v) == T(k, v, <<>>)
Bin(op, l, r) == T("bin", op, <<l, r>>)
Lst(items) == T("list", "", items)
Tk(t, v) == [t |-> t, v |-> v]

-----------------------------------------------------------------------------
(* Canonical rendering = Expression.String() *)

RECURSIVE JoinStr(_, _, _)
JoinStr(ss, sep, i) == IF i > Len(ss) THEN "" ELSE IF i = Len(ss) THEN ss[i] ELSE ss[i] \o sep \o JoinStr(ss, sep, i + 1)

RECURSIVE Canon(_)
Canon(t) ==
  CASE t.k = "id" -> t.v
    [] t.k = "ref" -> "`" \o t.v \o "`"             \* a bound select-field name: always quoted, so that it reads back as that name
    [] t.k = "num" -> t.v
    [] t.k = "str" -> "'" \o t.v \o "'"
    [] t.k = "key" -> "KEY"
    [] t.k = "value" -> "VALUE"
    [] t.k = "bool" -> t.v
    [] t.k = "not" -> "!(" \o Canon(t.a[1]) \o ")"
    [] t.k = "call" -> Canon(t.a[1]) \o "(" \o JoinStr([i \in 1..(Len(t.a) - 1) |-> Canon(t.a[i + 1])], ", ", 1) \o ")"
    [] t.k = "idx" -> Canon(t.a[1]) \o "[" \o Canon(t.a[2]) \o "]"
    [] t.k = "list" -> "(" \o JoinStr([i \in 1..Len(t.a) |-> Canon(t.a[i])], ", ", 1) \o ")"
    [] t.k = "bin" /\ t.v = "between" /\ t.a[2].k = "list" /\ Len(t.a[2].a) = 2 ->
         "(" \o Canon(t.a[1]) \o " BETWEEN " \o Canon(t.a[2].a[1]) \o " AND " \o Canon(t.a[2].a[2]) \o ")"
    [] t.k = "bin" -> "(" \o Canon(t.a[1]) \o " " \o t.v \o " " \o Canon(t.a[2]) \o ")"
    [] OTHER -> "?"

-----------------------------------------------------------------------------
(* CONTRACT: flat sequences.  items = <<operand, [op, operand]...>> as a sequence of records
   [op, x] : the first has op = "" ; for "between" x is the list node of its two bounds (each an
   already-built operand), for "in" a list node or an operand.                                   *)

MinPrec(items) == LET ps == {Prec(items[i].op) : i \in 2..Len(items)} IN CHOOSE p \in ps : \A q \in ps : p <= q
LastAt(items, p) == CHOOSE i \in 2..Len(items) : Prec(items[i].op) = p /\ \A j \in (i + 1)..Len(items) : Prec(items[j].op) # p

RECURSIVE Tree(_)
Tree(items) ==
  IF Len(items) = 1 THEN items[1].x
  ELSE LET k == LastAt(items, MinPrec(items))
           left == SubSeq(items, 1, k - 1)
           right == [i \in 1..(Len(items) - k + 1) |-> IF i = 1 THEN [op |-> "", x |-> items[k].x] ELSE items[k + i - 1]]
       IN IF items[k].op = "between" THEN
               \* x BETWEEN lo AND hi ... : operators to the right (all of them stronger, since k is the last weakest
               \* one) extend the upper bound
               LET hiItems == [i \in 1..Len(right) |-> IF i = 1 THEN [op |-> "", x |-> items[k].x.a[2]] ELSE right[i]]
               IN Bin("between", Tree(left), Lst(<<items[k].x.a[1], Tree(hiItems)>>))
          ELSE Bin(items[k].op, Tree(left), Tree(right))

\* the token rendering of a flat sequence with no parentheses at all (operands rendered canonically)
RECURSIVE OperandToks(_), ListToks(_, _), FullToks(_)
OperandToks(x) ==
  CASE x.k \in {"id", "num", "bool", "ref"} -> <<Tk(x.k, x.v)>>
    [] x.k = "str" -> <<Tk("str", x.v)>>
    [] x.k = "key" -> <<Tk("kw", "key")>>
    [] x.k = "value" -> <<Tk("kw", "value")>>
    [] x.k = "list" -> <<Tk("(", "(")>> \o ListToks(x.a, 1) \o <<Tk(")", ")")>>
    [] x.k = "not" -> <<Tk("op", "!")>> \o OperandToks(x.a[1])
    [] x.k = "call" -> OperandToks(x.a[1]) \o <<Tk("(", "(")>> \o ListToks(SubSeq(x.a, 2, Len(x.a)), 1) \o <<Tk(")", ")")>>
    [] x.k = "idx" -> OperandToks(x.a[1]) \o <<Tk("[", "[")>> \o OperandToks(x.a[2]) \o <<Tk("]", "]")>>
    [] OTHER -> <<Tk("(", "(")>> \o FullToks(x) \o <<Tk(")", ")")>>          \* a binary tree as operand: parenthesised
ListToks(xs, i) == IF i > Len(xs) THEN <<>>
                   ELSE FullToks(xs[i]) \o (IF i < Len(xs) THEN <<Tk(",", ",")>> ELSE <<>>) \o ListToks(xs, i + 1)
\* fully parenthesised token rendering of a tree
FullToks(t) ==
  IF t.k # "bin" THEN OperandToks(t)
  ELSE IF t.v = "between" THEN
       <<Tk("(", "(")>> \o FullToks(t.a[1]) \o <<Tk("op", "between")>> \o FullToks(t.a[2].a[1]) \o <<Tk("op", "and")>> \o FullToks(t.a[2].a[2]) \o <<Tk(")", ")")>>
  ELSE <<Tk("(", "(")>> \o FullToks(t.a[1]) \o <<Tk("op", t.v)>> \o FullToks(t.a[2]) \o <<Tk(")", ")")>>

FlatToks(items) ==
  LET RECURSIVE F(_)
      F(i) == IF i > Len(items) THEN <<>>
              ELSE (IF i = 1 THEN <<>> ELSE <<Tk("op", items[i].op)>>)
                   \o (IF items[i].op = "between"
                       THEN OperandToks(items[i].x.a[1]) \o <<Tk("op", "and")>> \o OperandToks(items[i].x.a[2])
                       ELSE OperandToks(items[i].x))
                   \o F(i + 1)
  IN F(1)

\* minimal parenthesisation: parentheses only where the contract's strength / left-associativity needs them
RECURSIVE MinToks(_), MinList(_, _)
NeedParenL(parent, child) == child.k = "bin" /\ Prec(child.v) < Prec(parent)
NeedParenR(parent, child) == child.k = "bin" /\ Prec(child.v) <= Prec(parent)
Wrap(b, toks) == IF b THEN <<Tk("(", "(")>> \o toks \o <<Tk(")", ")")>> ELSE toks
MinToks(t) ==
  IF t.k # "bin" THEN
       CASE t.k = "list" -> <<Tk("(", "(")>> \o MinList(t.a, 1) \o <<Tk(")", ")")>>
         [] t.k = "not" -> <<Tk("op", "!")>> \o Wrap(t.a[1].k = "bin", MinToks(t.a[1]))
         [] t.k = "call" -> MinToks(t.a[1]) \o <<Tk("(", "(")>> \o MinList(SubSeq(t.a, 2, Len(t.a)), 1) \o <<Tk(")", ")")>>
         [] t.k = "idx" -> MinToks(t.a[1]) \o <<Tk("[", "[")>> \o MinToks(t.a[2]) \o <<Tk("]", "]")>>
         [] OTHER -> OperandToks(t)
  ELSE IF t.v = "between" THEN
       Wrap(NeedParenL("between", t.a[1]), MinToks(t.a[1])) \o <<Tk("op", "between")>>
       \o Wrap(NeedParenR("between", t.a[2].a[1]), MinToks(t.a[2].a[1])) \o <<Tk("op", "and")>>
       \o Wrap(NeedParenR("between", t.a[2].a[2]), MinToks(t.a[2].a[2]))
  ELSE Wrap(NeedParenL(t.v, t.a[1]), MinToks(t.a[1])) \o <<Tk("op", t.v)>>
       \o (IF t.v = "in" /\ t.a[2].k = "list" THEN MinToks(t.a[2]) ELSE Wrap(NeedParenR(t.v, t.a[2]), MinToks(t.a[2])))
MinList(xs, i) == IF i > Len(xs) THEN <<>>
                  ELSE MinToks(xs[i]) \o (IF i < Len(xs) THEN <<Tk(",", ",")>> ELSE <<>>) \o MinList(xs, i + 1)

-----------------------------------------------------------------------------
(* DESIGN: the parser.  Every parse function returns [ok, t, i]: success, tree, index of the next token. *)

Fail == [ok |-> FALSE, t |-> Leaf("id", "?"), i |-> 0]
Ok(t, i) == [ok |-> TRUE, t |-> t, i |-> i]
At(toks, i) == IF i <= Len(toks) THEN toks[i] ELSE Tk("eof", "")
IsOp(tok) == tok.t = "op" /\ tok.v \in BinOps

RECURSIVE ParseBinary(_, _, _, _), ParseUnary(_, _), ParsePrimary(_, _), ParsePostfix(_, _, _), ParseArgs(_, _, _, _), Climb(_, _, _, _)

\* parseOperand
ParseOperand(toks, i) ==
  LET k == At(toks, i) IN
  CASE k.t = "id" -> Ok(Leaf("id", k.v), i + 1)
    [] k.t = "ref" -> Ok(Leaf("ref", k.v), i + 1)
    [] k.t = "num" -> Ok(Leaf("num", k.v), i + 1)
    [] k.t = "str" -> Ok(Leaf("str", k.v), i + 1)
    [] k.t = "bool" -> Ok(Leaf("bool", k.v), i + 1)
    [] k.t = "kw" /\ k.v = "key" -> Ok(Leaf("key", ""), i + 1)
    [] k.t = "kw" /\ k.v = "value" -> Ok(Leaf("value", ""), i + 1)
    [] k.t = "(" -> LET r == ParseBinary(toks, i + 1, 1, 0) IN
                    IF r.ok /\ At(toks, r.i).t = ")" THEN Ok(r.t, r.i + 1) ELSE Fail
    [] OTHER -> Fail

\* parseFuncCall / parseList argument lists: expr (, expr)* up to the closer
ParseArgs(toks, i, closer, acc) ==
  IF At(toks, i).t = closer THEN [ok |-> TRUE, xs |-> acc, i |-> i + 1]
  ELSE LET r == ParseBinary(toks, i, 1, 0) IN
       IF ~r.ok THEN [ok |-> FALSE, xs |-> acc, i |-> 0]
       ELSE IF At(toks, r.i).t = "," THEN ParseArgs(toks, r.i + 1, closer, Append(acc, r.t))
       ELSE IF At(toks, r.i).t = closer THEN [ok |-> TRUE, xs |-> Append(acc, r.t), i |-> r.i + 1]
       ELSE [ok |-> FALSE, xs |-> acc, i |-> 0]

\* parsePrimaryExpr: operand followed by any chain of calls and index accesses
ParsePostfix(toks, x, i) ==
  IF At(toks, i).t = "(" THEN
       LET r == ParseArgs(toks, i + 1, ")", <<>>) IN
       IF r.ok THEN ParsePostfix(toks, T("call", "", <<x>> \o r.xs), r.i) ELSE Fail
  ELSE IF At(toks, i).t = "[" THEN
       LET r == ParseArgs(toks, i + 1, "]", <<>>) IN
       IF r.ok /\ Len(r.xs) = 1 THEN ParsePostfix(toks, T("idx", "", <<x, r.xs[1]>>), r.i) ELSE Fail
  ELSE Ok(x, i)
ParsePrimary(toks, i) == LET r == ParseOperand(toks, i) IN IF r.ok THEN ParsePostfix(toks, r.t, r.i) ELSE Fail

\* parseUnaryExpr
ParseUnary(toks, i) ==
  IF At(toks, i).t = "op" /\ At(toks, i).v = "!" THEN
       LET r == ParseUnary(toks, i + 1) IN IF r.ok THEN Ok(T("not", "", <<r.t>>), r.i) ELSE Fail
  ELSE ParsePrimary(toks, i)

\* parseBinaryExpr(x, prec1): the loop, as recursion on the accumulated left operand
Climb(toks, x, i, prec1) ==
  LET k == At(toks, i)
      oprec == IF IsOp(k) THEN Prec(k.v) ELSE 0
      nextp == IF Bug_RightAssoc THEN oprec ELSE oprec + 1
  IN IF oprec < prec1 THEN Ok(x, i)
     ELSE IF k.v = "in" /\ At(toks, i + 1).t = "(" THEN
          LET r == ParseArgs(toks, i + 2, ")", <<>>) IN
          IF r.ok THEN Climb(toks, Bin("in", x, Lst(r.xs)), r.i, prec1) ELSE Fail
     ELSE IF k.v = "between" THEN
          LET lo == ParseBinary(toks, i + 1, nextp, 0) IN
          IF ~lo.ok \/ ~(At(toks, lo.i).t = "op" /\ At(toks, lo.i).v = "and") THEN Fail
          ELSE LET hi == ParseBinary(toks, lo.i + 1, nextp, 0) IN
               IF hi.ok THEN Climb(toks, Bin("between", x, Lst(<<lo.t, hi.t>>)), hi.i, prec1) ELSE Fail
     ELSE LET y == ParseBinary(toks, i + 1, nextp, 0) IN
          IF y.ok THEN Climb(toks, Bin(k.v, x, y.t), y.i, prec1) ELSE Fail
ParseBinary(toks, i, prec1, dummy) ==
  LET u == ParseUnary(toks, i) IN IF u.ok THEN Climb(toks, u.t, u.i, prec1) ELSE Fail

\* parseExpr over a whole token sequence
Parse(toks) == LET r == ParseBinary(toks, 1, 1, 0) IN IF r.ok /\ r.i = Len(toks) + 1 THEN r ELSE Fail

=============================================================================
