------------------------------- MODULE KvBase -------------------------------
(***************************************************************************)
(* Shared encodings of the kvql specification.                             *)
(*                                                                         *)
(*  - byte strings are sequences of 0..255 (TLA+ strings are tags only)    *)
(*  - values are uniform records [t, s, n, d, l]                           *)
(*      t = "s" text (s = bytes)          "i" integer (n)                  *)
(*          "f" dyadic float n / 2^d      "b" Boolean (n = 0/1)            *)
(*          "l" list (l = elements)       "j" JSON object (l = members,    *)
(*                                         each member a "m" value whose   *)
(*                                         s = name and l = <<value>>)     *)
(*          "err"  evaluation fails        "unspec" documentation silent   *)
(*  - AST nodes are uniform records [k, op, s, n, d, a]                    *)
(***************************************************************************)
EXTENDS Integers, Sequences, FiniteSets, TLC

Min2(a, b) == IF a < b THEN a ELSE b
Max2(a, b) == IF a > b THEN a ELSE b
Abs(a) == IF a < 0 THEN 0 - a ELSE a

RECURSIVE Pow2(_)
Pow2(k) == IF k <= 0 THEN 1 ELSE 2 * Pow2(k - 1)

-----------------------------------------------------------------------------
(* Byte strings *)

RECURSIVE LexLessFrom(_, _, _)
LexLessFrom(a, b, i) ==
  IF i > Len(a) THEN i <= Len(b)
  ELSE IF i > Len(b) THEN FALSE
  ELSE IF a[i] < b[i] THEN TRUE
  ELSE IF a[i] > b[i] THEN FALSE
  ELSE LexLessFrom(a, b, i + 1)
LexLess(a, b) == LexLessFrom(a, b, 1)
LexLeq(a, b) == a = b \/ LexLess(a, b)
Cmp(a, b) == IF a = b THEN 0 ELSE IF LexLess(a, b) THEN -1 ELSE 1
HasPrefix(s, p) == Len(p) <= Len(s) /\ SubSeq(s, 1, Len(p)) = p
HasSuffix(s, p) == Len(p) <= Len(s) /\ SubSeq(s, Len(s) - Len(p) + 1, Len(s)) = p
Contains(s, p) == \E i \in 0..(Len(s) - Len(p)) : SubSeq(s, i + 1, i + Len(p)) = p

UpperByte(c) == IF c >= 97 /\ c <= 122 THEN c - 32 ELSE c
LowerByte(c) == IF c >= 65 /\ c <= 90 THEN c + 32 ELSE c
Upper(s) == [i \in 1..Len(s) |-> UpperByte(s[i])]
Lower(s) == [i \in 1..Len(s) |-> LowerByte(s[i])]

IsDigit(c) == c >= 48 /\ c <= 57
AllDigits(s) == Len(s) > 0 /\ \A i \in 1..Len(s) : IsDigit(s[i])

RECURSIVE DigitsVal(_, _, _)
DigitsVal(s, i, acc) == IF i > Len(s) THEN acc ELSE DigitsVal(s, i + 1, acc * 10 + (s[i] - 48))

\* decimal integer text: optional sign, at least one digit, at most 9 digits (so it fits TLC ints)
IntBody(s) == IF Len(s) > 0 /\ s[1] \in {43, 45} THEN SubSeq(s, 2, Len(s)) ELSE s
IsIntText(s) == AllDigits(IntBody(s)) /\ Len(IntBody(s)) <= 9
IntTextLong(s) == AllDigits(IntBody(s)) /\ Len(IntBody(s)) > 9      \* outside the modelled range
IntOfText(s) == LET v == DigitsVal(IntBody(s), 1, 0) IN IF Len(s) > 0 /\ s[1] = 45 THEN 0 - v ELSE v

RECURSIVE NatText(_)
NatText(n) == IF n < 10 THEN <<48 + n>> ELSE Append(NatText(n \div 10), 48 + (n % 10))
IntText(n) == IF n < 0 THEN <<45>> \o NatText(0 - n) ELSE NatText(n)

\* index of first occurrence of p in s at or after position i (1-based), 0 if none
RECURSIVE IndexFrom(_, _, _)
IndexFrom(s, p, i) ==
  IF i + Len(p) - 1 > Len(s) THEN 0
  ELSE IF SubSeq(s, i, i + Len(p) - 1) = p THEN i
  ELSE IndexFrom(s, p, i + 1)

RECURSIVE SplitFrom(_, _, _)
SplitFrom(s, sep, i) ==       \* sep non-empty
  LET j == IndexFrom(s, sep, i) IN
  IF j = 0 THEN <<SubSeq(s, i, Len(s))>>
  ELSE <<SubSeq(s, i, j - 1)>> \o SplitFrom(s, sep, j + Len(sep))
Split(s, sep) == SplitFrom(s, sep, 1)

RECURSIVE JoinFrom(_, _, _)
JoinFrom(parts, sep, i) ==
  IF i > Len(parts) THEN <<>>
  ELSE IF i = Len(parts) THEN parts[i]
  ELSE parts[i] \o sep \o JoinFrom(parts, sep, i + 1)
Join(parts, sep) == JoinFrom(parts, sep, 1)

-----------------------------------------------------------------------------
(* Values *)

V(t, s, n, d, l) == [t |-> t, s |-> s, n |-> n, d |-> d, l |-> l]
VStr(s)   == V("s", s, 0, 0, <<>>)
VInt(n)   == V("i", <<>>, n, 0, <<>>)
\* an integer too long for TLC arithmetic (10..18 digits): carried as its canonical decimal text, compared by text only
VBig(s)   == V("I", s, 0, 0, <<>>)
MaxInt64Text == <<57,50,50,51,51,55,50,48,51,54,56,53,52,55,55,53,56,48,55>>      \* 9223372036854775807
BigIntText(s) == /\ IntTextLong(s) /\ IntBody(s)[1] # 48
                 /\ \/ Len(IntBody(s)) <= 18
                    \/ (Len(IntBody(s)) = 19 /\ (IntBody(s) = MaxInt64Text \/ LexLess(IntBody(s), MaxInt64Text)))
CanonInt(s) == IF s[1] = 45 THEN <<45>> \o IntBody(s) ELSE IntBody(s)
VBool(b)  == V("b", <<>>, IF b THEN 1 ELSE 0, 0, <<>>)
VList(l)  == V("l", <<>>, 0, 0, l)
VObj(ms)  == V("j", <<>>, 0, 0, ms)
VMem(name, v) == V("m", name, 0, 0, <<v>>)
VErr      == V("err", <<>>, 0, 0, <<>>)
VUnspec   == V("unspec", <<>>, 0, 0, <<>>)

\* normalised dyadic float n / 2^d  (d >= 0; n odd unless d = 0)
RECURSIVE NormDy(_, _)
NormDy(n, d) == IF d > 0 /\ n % 2 = 0 THEN NormDy(n \div 2, d - 1) ELSE <<n, d>>
VFlt(n, d) == LET x == NormDy(n, d) IN V("f", <<>>, x[1], x[2], <<>>)

IsNum(v) == v.t \in {"i", "f"}
IsBad(v) == v.t \in {"err", "unspec"}
\* strictness: unspec dominates err dominates values
Worst(vs) == IF \E i \in 1..Len(vs) : vs[i].t = "unspec" THEN VUnspec
             ELSE IF \E i \in 1..Len(vs) : vs[i].t = "err" THEN VErr
             ELSE VBool(TRUE)      \* "no problem" marker
AnyBad(vs) == \E i \in 1..Len(vs) : IsBad(vs[i])

\* numeric comparison by cross-multiplication (exact)
NumD(v) == IF v.t = "f" THEN v.d ELSE 0
NumLess(a, b) == a.n * Pow2(NumD(b)) < b.n * Pow2(NumD(a))
NumEq(a, b)   == a.n * Pow2(NumD(b)) = b.n * Pow2(NumD(a))
NumLeq(a, b)  == NumLess(a, b) \/ NumEq(a, b)

\* magnitudes kept small enough for TLC's 32-bit integers
Small(n) == n > -60000000 /\ n < 60000000

-----------------------------------------------------------------------------
(* AST *)

N(k, op, s, n, d, a) == [k |-> k, op |-> op, s |-> s, n |-> n, d |-> d, a |-> a]
AKey        == N("key", "", <<>>, 0, 0, <<>>)
AVal        == N("val", "", <<>>, 0, 0, <<>>)
AStr(s)     == N("str", "", s, 0, 0, <<>>)
AInt(n)     == N("int", "", <<>>, n, 0, <<>>)
AFlt(n, d)  == N("flt", "", <<>>, n, d, <<>>)
ABool(b)    == N("bool", "", <<>>, IF b THEN 1 ELSE 0, 0, <<>>)
ABin(op, l, r) == N("bin", op, <<>>, 0, 0, <<l, r>>)
ANot(x)     == N("not", "", <<>>, 0, 0, <<x>>)
ACall(f, args) == N("call", f, <<>>, 0, 0, args)
AList(items) == N("list", "", <<>>, 0, 0, items)
AIdx(x, i)  == N("idx", "", <<>>, 0, 0, <<x, i>>)
AName(nm)   == N("name", nm, <<>>, 0, 0, <<>>)
AIn(l, items) == ABin("in", l, AList(items))
ABetween(x, lo, hi) == ABin("between", x, AList(<<lo, hi>>))

AndOps == {"&", "and"}
OrOps  == {"|", "or"}
CmpOps == {"=", "!=", "^=", "~=", ">", ">=", "<", "<="}
MathOps == {"+", "-", "*", "/"}

-----------------------------------------------------------------------------
(* Sequences as bags, slices *)

Range(s) == {s[i] : i \in 1..Len(s)}
Count(s, x) == Cardinality({i \in 1..Len(s) : s[i] = x})
SameBag(a, b) == Len(a) = Len(b) /\ \A i \in 1..Len(a) : Count(a, a[i]) = Count(b, a[i])
Take(s, off, n) == SubSeq(s, off + 1, Min2(Len(s), off + n))
IsPrefixOf(p, s) == Len(p) <= Len(s) /\ SubSeq(s, 1, Len(p)) = p

=============================================================================
