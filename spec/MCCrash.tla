------------------------------- MODULE MCCrash -------------------------------
(* C06: single-edit corruptions of the statement corpus, chosen exhaustively by TLC:
   every text x every position x {delete, duplicate, replace by each of 12 token-relevant bytes}.
   Each distinct corrupted text is emitted once for the isolated workers of the harness. *)
EXTENDS Integers, Sequences, TLC, Json, CorpusTexts
CONSTANTS FirstText, LastText
RepBytes == {32, 39, 34, 40, 41, 44, 61, 33, 60, 43, 91, 49}       \* space ' " ( ) , = ! < + [ 1
Min(a, b) == IF a < b THEN a ELSE b
VARIABLES text, stage
Init == stage = 0 /\ text \in {CorpusTexts[i] : i \in FirstText..Min(LastText, Len(CorpusTexts))}
Del(t, p) == SubSeq(t, 1, p - 1) \o SubSeq(t, p + 1, Len(t))
Dup(t, p) == SubSeq(t, 1, p) \o SubSeq(t, p, Len(t))
Rep(t, p, c) == [t EXCEPT ![p] = c]
Next == /\ stage = 0 /\ stage' = 1
        /\ \E p \in 1..Len(text) : \/ text' = Del(text, p) \/ text' = Dup(text, p) \/ \E c \in RepBytes : text' = Rep(text, p, c)
Emit == PrintT(ToJson([kind |-> "case", text |-> text]))
=============================================================================
