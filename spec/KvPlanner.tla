------------------------------ MODULE KvPlanner ------------------------------
(***************************************************************************)
(* DESIGN layer: which plan the optimizer builds for a statement           *)
(* (optimizer.go: buildSelectPlan / buildFinalPlan / buildDeletePlan).     *)
(* The plan is a chain of node names from the outermost node to the scan;  *)
(* the scan node comes from the region algebra of KvRegion (PlanOf).       *)
(*                                                                         *)
(*  SELECT, no aggregate : [FinalLimit] [FinalOrder] Projection <scan>     *)
(*      FinalOrder is left out for a sole `order by key asc` (every scan   *)
(*      delivers in key order - for point reads because the key list is    *)
(*      sorted: KvPoint);  FinalLimit is present iff there is a LIMIT.     *)
(*  SELECT, aggregate    : [FinalLimit] [FinalOrder] Aggregate <scan>      *)
(*      without ORDER BY the LIMIT is pushed into the aggregate node       *)
(*      (KvAggr) and no FinalLimit is built.                               *)
(*  DELETE               : Remove                when the scan is a point  *)
(*                           read, there is no LIMIT and no AND in WHERE   *)
(*                         Delete [Limit] <scan> otherwise (no Limit over  *)
(*                           the empty scan)                               *)
(*  PUT / REMOVE         : Put / Remove                                    *)
(*                                                                         *)
(* The conformance harness records the chain of the plan the engine built  *)
(* (type names of the plan nodes); TraceStmt compares it with ChainOf and   *)
(* reports a difference as DESIGN DRIFT: the engine may legitimately plan  *)
(* differently as long as the results are right (the property checks), but *)
(* the specification then no longer describes it.                          *)
(***************************************************************************)
EXTENDS KvRegion, KvFold

ScanNode(st) == CASE st.tp = "EMPTY" -> "EmptyResultPlan" [] st.tp = "MGET" -> "MultiGetPlan" [] st.tp = "PREFIX" -> "PrefixScanPlan"
                  [] st.tp = "RANGE" -> "RangeScanPlan" [] OTHER -> "FullScanPlan"

RECURSIVE HasAndOp(_)
HasAndOp(e) == (e.k = "bin" /\ e.op \in AndOps) \/ \E i \in 1..Len(e.a) : HasAndOp(e.a[i])

PAggrNames == {"count", "sum", "avg", "min", "max", "quantile", "json_arrayagg", "group_concat"}
RECURSIVE PHasAggr(_)
PHasAggr(e) == (e.k = "call" /\ e.op \in PAggrNames) \/ (e.k = "bin" /\ (PHasAggr(e.a[1]) \/ PHasAggr(e.a[2])))
PIsAggr(stmt) == \E i \in 1..Len(stmt.fields) : PHasAggr(stmt.fields[i].e)

\* a sole `order by <field whose expression is the key itself> asc`
SoleKeyAsc(stmt) == /\ Len(stmt.order) = 1 /\ ~stmt.order[1].desc
                    /\ IF stmt.fields = <<>> THEN stmt.order[1].f = 1 ELSE stmt.fields[stmt.order[1].f].e.k = "key"

\* the expression optimizer runs first (KvFold!Optimize: what it folds - arithmetic, comparisons and scalar calls over
\* literals, and/or with a folded constant - has become a literal when the region is computed; what it leaves alone
\* - BETWEEN, IN, regular expressions, list functions over constants - stays an opaque atom)
ChainOf(stmt) ==
  LET scan == ScanNode(Region(Optimize(stmt.where))) IN
  CASE stmt.kind = "select" ->
         IF ~PIsAggr(stmt) THEN
              (IF stmt.lim.has THEN <<"FinalLimitPlan">> ELSE <<>>)
              \o (IF stmt.order # <<>> /\ ~SoleKeyAsc(stmt) THEN <<"FinalOrderPlan">> ELSE <<>>)
              \o <<"ProjectionPlan", scan>>
         ELSE (IF stmt.lim.has /\ stmt.order # <<>> THEN <<"FinalLimitPlan">> ELSE <<>>)
              \o (IF stmt.order # <<>> THEN <<"FinalOrderPlan">> ELSE <<>>)
              \o <<"AggregatePlan", scan>>
    [] stmt.kind = "delete" ->
         IF scan = "EmptyResultPlan" THEN <<"DeletePlan", scan>>
         ELSE IF scan = "MultiGetPlan" /\ ~stmt.lim.has /\ ~HasAndOp(stmt.where) THEN <<"RemovePlan">>
         ELSE <<"DeletePlan">> \o (IF stmt.lim.has THEN <<"LimitPlan">> ELSE <<>>) \o <<scan>>
    [] stmt.kind = "put" -> <<"PutPlan">>
    [] stmt.kind = "remove" -> <<"RemovePlan">>
    [] OTHER -> <<>>

\* the engine's chain carries Go type names ("*kvql.ProjectionPlan"): strip the package prefix
=============================================================================
