------------------------------ MODULE MCRegion ------------------------------
(***************************************************************************)
(* Exhaustive enumeration of predicate trees over key-constraining atoms   *)
(* and opaque atoms (C02, C18, and as SELECT/DELETE cases for C01/C11).    *)
(*  (M) Sound: the design-layer region contains every key the contract     *)
(*      says satisfies the clause, for every key of an order-complete      *)
(*      universe and both truth values of the opaque atom.                 *)
(*  (G) Emit: one JSON line per tree with the contract's satisfying sets,  *)
(*      the design's region and the C18 envelope.                          *)
(***************************************************************************)
EXTENDS KvRegion, Json

CONSTANTS Depth,        \* 1 or 2
          Reduced,      \* TRUE: reduced atom pool (used for depth 2)
          EmitCases,    \* TRUE: print case lines
          WithEmptyLit, \* TRUE: the empty literal '' is in the pool
          Edge          \* TRUE: the small edge pool only (literals '' and 'a')

\* literal letters 'a','b'; key letters 'A' < 'a' < 'b' < 'c'
LitAlpha == {97, 98}
KeyAlpha == {65, 97, 98, 99}
StrsOver(A, n) == UNION { [1..m -> A] : m \in 0..n }
Lits == IF WithEmptyLit THEN StrsOver(LitAlpha, 2) ELSE StrsOver(LitAlpha, 2) \ {<<>>}
RLits == {<<97>>, <<97, 98>>, <<98>>}
Keys == StrsOver(KeyAlpha, 3)

\* ---- key-universe lemma (DESIGN.md 3.4): every order/prefix relationship a key can have to the
\* literals is realised inside Keys
BigKeys == StrsOver({65, 97, 98, 99, 100}, 4)
Sig(k) == [l \in Lits |-> <<Cmp(k, l), HasPrefix(k, l), HasPrefix(l, k)>>]
ASSUME UniverseLemma == {Sig(k) : k \in BigKeys} = {Sig(k) : k \in Keys}

\* sorted key sequence = the universe store's key order
RECURSIVE SortKeys(_, _)
SortKeys(S, acc) == IF S = {} THEN acc
                    ELSE LET m == CHOOSE x \in S : \A y \in S : LexLeq(x, y) IN SortKeys(S \ {m}, Append(acc, m))
KeySeq == SortKeys(Keys, <<>>)
NKeys == Len(KeySeq)

V1 == <<118, 49>>   \* "v1": the opaque atom  value = 'v1'  is true
V0 == <<118, 48>>
Opq == ABin("=", AVal, AStr(V1))

CmpAtoms(LS) == { ABin(op, AKey, AStr(l)) : op \in {"=", "^=", ">", ">=", "<", "<="}, l \in LS }
                \cup { ABin(op, AStr(l), AKey) : op \in {"=", "^=", ">", ">=", "<", "<="}, l \in LS }
\* constant comparisons: the expression optimizer folds them to true / false before planning
CFalse == ABin("=", AStr(<<97>>), AStr(<<98>>))
CTrue  == ABin("=", AStr(<<97>>), AStr(<<97>>))
\* the edge pool: the empty literal and one letter - nil / empty-string confusions live here
ELits == {<<>>, <<97>>}
EdgeAtoms == CmpAtoms(ELits) \cup { AIn(AKey, <<AStr(<<>>), AStr(<<97>>)>>), ABetween(AKey, AStr(<<>>), AStr(<<97>>)), Opq }
Atoms == IF Edge THEN EdgeAtoms ELSE IF Reduced
         THEN CmpAtoms(RLits) \cup { AIn(AKey, <<AStr(<<97>>), AStr(<<98>>)>>), ABetween(AKey, AStr(<<97>>), AStr(<<98>>)),
                                    Opq, CFalse }
         ELSE CmpAtoms(Lits)
              \cup { AIn(AKey, <<AStr(l), AStr(m)>>) : l \in Lits, m \in Lits }
              \cup { ABetween(AKey, AStr(l), AStr(m)) : l \in Lits, m \in Lits }
              \cup { Opq, CFalse, CTrue }

\* BETWEEN with lower >= upper is refused by the engine at run time: not "evaluable"
RECURSIVE Evaluable(_)
Evaluable(e) == IF e.k = "bin" /\ e.op = "between" THEN LexLess(e.a[2].a[1].s, e.a[2].a[2].s)
                ELSE IF e.k = "bin" /\ (e.op \in AndOps \/ e.op \in OrOps) THEN Evaluable(e.a[1]) /\ Evaluable(e.a[2])
                ELSE TRUE

Ops == {"&", "|"}
RECURSIVE Expr(_)
Expr(d) == IF d = 0 THEN {a \in Atoms : Evaluable(a)}
           ELSE LET S == Expr(d - 1) IN S \cup { ABin(op, l, r) : op \in Ops, l \in S, r \in S }
Sub == Expr(Depth - 1)

VARIABLES e, stage
vars == <<e, stage>>
\* a Boolean literal is accepted as a whole clause only (the checker refuses it under & and |)
\* a long IN list (more keys than any batch size: 40 of the universe keys, every second one) is still a set of point reads
LongIn == AIn(AKey, [i \in 1..40 |-> AStr(KeySeq[2 * i])])
Init == \/ stage = 0 /\ e \in { ABin(op, l, l) : op \in Ops, l \in Sub }
        \/ stage = 1 /\ e \in {ABool(FALSE), ABool(TRUE), LongIn, ABin("&", LongIn, Opq), ABin("&", LongIn, ABin("^=", AKey, AStr(<<97>>)))}
                                   \cup {x \in Atoms : Evaluable(x)}        \* every atom as a whole clause too (a constant comparison alone, one key test alone)
Next == stage = 0 /\ stage' = 1 /\ \E r \in Sub : e' = ABin(e.op, e.a[1], r)

SatIdx(ex, opq) == { i \in 1..NKeys : Sat(ex, Pair(KeySeq[i], IF opq THEN V1 ELSE V0), <<>>) = "t" }

RegionJson(st) == [tp |-> st.tp, keys |-> [i \in 1..Len(st.keys) |-> IF st.keys[i] = NIL THEN [nil |-> TRUE, b |-> <<>>] ELSE [nil |-> FALSE, b |-> st.keys[i]]]]
PinJson(p) == [tp |-> p.tp, ks |-> p.ks, lo |-> B(p.lo), haslo |-> p.lo # NIL, hi |-> B(p.hi), hashi |-> p.hi # NIL]

Check ==
  stage = 1 =>
    LET s1 == SatIdx(e, TRUE)
        s0 == SatIdx(e, FALSE)
        r  == Region(e)
    IN /\ \A i \in s1 \cup s0 : InRegion(KeySeq[i], r)                       \* C02 Sound
       /\ FaceUnsat(e) => (s1 = {} /\ s0 = {})                               \* C18 contract sanity
       /\ EmitCases => PrintT(ToJson([kind |-> "case", e |-> e, s1 |-> s1, s0 |-> s0, region |-> RegionJson(r),
                                       pins |-> [i \in 1..Len(Pins(e)) |-> PinJson(Pins(e)[i])], unsat |-> FaceUnsat(e)]))

StoreLine == PrintT(ToJson([kind |-> "store", keys |-> KeySeq, v1 |-> V1, v0 |-> V0]))
ASSUME EmitCases => StoreLine
=============================================================================
