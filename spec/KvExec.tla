------------------------------- MODULE KvExec -------------------------------
(***************************************************************************)
(* CONTRACT layer: what a whole statement must return / do to the store.   *)
(*                                                                         *)
(* A store is a sequence of pairs [k, v, doc] in ascending byte-wise key   *)
(* order.  A statement is a record                                         *)
(*   [kind, fields, where, order, group, lim, pairs, keys]                 *)
(*   fields : <<[e, nm]>>  (<<>> means star), nm = alias or ""             *)
(*   order  : <<[f, desc]>>  f = index of the select field                 *)
(*   group  : <<f>>          indexes of the grouping select fields         *)
(*   lim    : [has, s, n]                                                  *)
(*   pairs  : <<[k, v]>> (PUT)      keys : <<e>> (REMOVE)                  *)
(***************************************************************************)
EXTENDS KvEval

-----------------------------------------------------------------------------
(* Alias environment and WHERE *)

EnvOf(stmt) == LET named == SelectSeq(stmt.fields, LAMBDA f : f.nm # "")
               IN [i \in 1..Len(named) |-> [nm |-> named[i].nm, e |-> named[i].e]]

SortedStore(store) == \A i \in 1..(Len(store) - 1) : LexLess(store[i].k, store[i + 1].k)

SatVec(store, w, env) == [i \in 1..Len(store) |-> Sat(w, store[i], env)]
Evaluable(store, w, env) == \A i \in 1..Len(store) : Sat(w, store[i], env) # "u"

RECURSIVE FilterIdx(_, _, _)
FilterIdx(sv, i, acc) == IF i > Len(sv) THEN acc
                         ELSE FilterIdx(sv, i + 1, IF sv[i] = "t" THEN Append(acc, i) ELSE acc)
\* the satisfying pairs in key order (only meaningful when Evaluable)
Filtered(store, w, env) == LET idx == FilterIdx(SatVec(store, w, env), 1, <<>>)
                           IN [j \in 1..Len(idx) |-> store[idx[j]]]

-----------------------------------------------------------------------------
(* Projection *)

ProjectRow(fields, p, env) ==
  IF fields = <<>> THEN <<VStr(p.k), VStr(p.v)>>
  ELSE [i \in 1..Len(fields) |-> Eval(fields[i].e, p, env)]

RowBad(r) == \E i \in 1..Len(r) : IsBad(r[i])

-----------------------------------------------------------------------------
(* ORDER BY: sorted permutation *)

\* three-way comparison of two column values; "u" when the documentation gives no order
\* integers too long for TLC arithmetic (tag "I", canonical decimal text) order by sign, length, digits
DecText(v) == IF v.t = "I" THEN v.s ELSE IntText(v.n)
MagLess(x, y) == Len(x) < Len(y) \/ (Len(x) = Len(y) /\ LexLess(x, y))
DecLess(x, y) == LET nx == x[1] = 45  ny == y[1] = 45 IN
                 IF nx /\ ~ny THEN TRUE ELSE IF ~nx /\ ny THEN FALSE
                 ELSE IF nx THEN MagLess(Tail(y), Tail(x)) ELSE MagLess(x, y)
ValCmp(a, b) ==
  IF a.t \in {"i", "I"} /\ b.t \in {"i", "I"} /\ "I" \in {a.t, b.t} THEN
       (IF DecText(a) = DecText(b) THEN "eq" ELSE IF DecLess(DecText(a), DecText(b)) THEN "lt" ELSE "gt")
  ELSE IF a.t = "s" /\ b.t = "s" THEN (IF a.s = b.s THEN "eq" ELSE IF LexLess(a.s, b.s) THEN "lt" ELSE "gt")
  ELSE IF IsNum(a) /\ IsNum(b) THEN (IF NumEq(a, b) THEN "eq" ELSE IF NumLess(a, b) THEN "lt" ELSE "gt")
  ELSE IF a.t = "b" /\ b.t = "b" THEN (IF a.n = b.n THEN "eq" ELSE IF a.n < b.n THEN "lt" ELSE "gt")
  ELSE "u"
Flip(c) == IF c = "lt" THEN "gt" ELSE IF c = "gt" THEN "lt" ELSE c

RECURSIVE RowCmpFrom(_, _, _, _)
RowCmpFrom(r1, r2, order, i) ==
  IF i > Len(order) THEN "eq"
  ELSE LET c0 == ValCmp(r1[order[i].f], r2[order[i].f])
           c  == IF order[i].desc THEN Flip(c0) ELSE c0
       IN IF c = "eq" THEN RowCmpFrom(r1, r2, order, i + 1) ELSE c
RowCmp(r1, r2, order) == RowCmpFrom(r1, r2, order, 1)

Comparable(rows, order) == \A i \in 1..Len(rows) : \A j \in 1..Len(rows) : RowCmp(rows[i], rows[j], order) # "u"
SortedBy(rows, order) == \A i \in 1..(Len(rows) - 1) : RowCmp(rows[i], rows[i + 1], order) \in {"lt", "eq"}
ValidOrder(rows, base, order) == SameBag(rows, base) /\ SortedBy(rows, order)

\* rows is the slice [s, s+n) of SOME valid sorted order of base
SubBag(a, b) == \A i \in 1..Len(a) : Count(a, a[i]) <= Count(b, a[i])
ValidSlice(rows, base, order, s, n) ==
  LET want == Max2(0, Min2(n, Len(base) - s)) IN
  /\ Len(rows) = want
  /\ SubBag(rows, base)
  /\ SortedBy(rows, order)
  /\ want > 0 =>
       LET first == rows[1]
           last  == rows[Len(rows)]
           \* multiplicities of base rows left outside the slice
           Out(x) == Count(base, x) - Count(rows, x)
           D == Range(base)
           Sum(S) == LET RECURSIVE F(_) F(T) == IF T = {} THEN 0 ELSE LET x == CHOOSE y \in T : TRUE IN Out(x) + F(T \ {x}) IN F(S)
           lt  == Sum({x \in D : RowCmp(x, first, order) = "lt"})
           le  == Sum({x \in D : RowCmp(x, first, order) \in {"lt", "eq"}})
           gt  == Sum({x \in D : RowCmp(x, last, order) = "gt"})
           ge  == Sum({x \in D : RowCmp(x, last, order) \in {"gt", "eq"}})
           rest == Len(base) - want
       IN /\ lt <= s /\ s <= le
          /\ gt <= rest - s /\ rest - s <= ge
          /\ \A x \in D : Out(x) > 0 => (RowCmp(x, first, order) \in {"lt", "eq"} \/ RowCmp(x, last, order) \in {"gt", "eq"})

-----------------------------------------------------------------------------
(* GROUP BY and aggregates *)

AggrNames == {"count", "sum", "avg", "min", "max", "group_concat", "json_arrayagg", "quantile"}
RECURSIVE HasAggr(_)
HasAggr(e) == \/ e.k = "call" /\ e.op \in AggrNames
              \/ e.k = "bin" /\ (HasAggr(e.a[1]) \/ HasAggr(e.a[2]))

IsAggStmt(stmt) == \E i \in 1..Len(stmt.fields) : HasAggr(stmt.fields[i].e)

GroupKey(stmt, p, env) == [i \in 1..Len(stmt.group) |-> Eval(stmt.fields[stmt.group[i]].e, p, env)]

\* groups in order of first appearance: a sequence of sequences of pairs
RECURSIVE GroupsFrom(_, _, _, _, _)
GroupsFrom(stmt, pairs, env, i, acc) ==
  IF i > Len(pairs) THEN acc
  ELSE LET k == GroupKey(stmt, pairs[i], env)
           pos == IF \E g \in 1..Len(acc) : acc[g].key = k THEN CHOOSE g \in 1..Len(acc) : acc[g].key = k ELSE 0
       IN IF pos = 0 THEN GroupsFrom(stmt, pairs, env, i + 1, Append(acc, [key |-> k, ps |-> <<pairs[i]>>]))
          ELSE GroupsFrom(stmt, pairs, env, i + 1, [acc EXCEPT ![pos].ps = Append(@, pairs[i])])
Groups(stmt, pairs, env) ==
  IF stmt.group = <<>> THEN (IF pairs = <<>> THEN <<>> ELSE <<[key |-> <<>>, ps |-> pairs]>>)
  ELSE GroupsFrom(stmt, pairs, env, 1, <<>>)

RECURSIVE NumSum(_, _, _)
NumSum(vs, i, acc) ==      \* exact sum of numeric values; float kind as soon as one float occurs
  IF IsBad(acc) \/ i > Len(vs) THEN acc
  ELSE NumSum(vs, i + 1, EvalMath("+", acc, vs[i]))

RECURSIVE NumExt(_, _, _, _)
NumExt(vs, i, best, wantMin) ==
  IF i > Len(vs) THEN best
  ELSE NumExt(vs, i + 1, IF (wantMin /\ NumLess(vs[i], best)) \/ (~wantMin /\ NumLess(best, vs[i])) THEN vs[i] ELSE best, wantMin)

\* ---- exact sums and means of non-negative integers beyond TLC's range, on decimal digit strings
Rev(q) == [i \in 1..Len(q) |-> q[Len(q) + 1 - i]]
RECURSIVE AddRev(_, _, _)
AddRev(x, y, c) ==
  IF x = <<>> /\ y = <<>> THEN (IF c = 0 THEN <<>> ELSE <<48 + c>>)
  ELSE LET dx == IF x = <<>> THEN 0 ELSE x[1] - 48
           dy == IF y = <<>> THEN 0 ELSE y[1] - 48
           t  == dx + dy + c
       IN <<48 + (t % 10)>> \o AddRev(IF x = <<>> THEN x ELSE Tail(x), IF y = <<>> THEN y ELSE Tail(y), t \div 10)
AddDec(x, y) == Rev(AddRev(Rev(x), Rev(y), 0))
RECURSIVE StripZeros(_)
StripZeros(q) == IF Len(q) > 1 /\ q[1] = 48 THEN StripZeros(Tail(q)) ELSE q
\* long division of a digit string by a small positive integer: [q, r]
RECURSIVE DivGo(_, _, _, _, _)
DivGo(x, n, i, rem, acc) == IF i > Len(x) THEN [q |-> StripZeros(acc), r |-> rem]
                            ELSE LET cur == rem * 10 + (x[i] - 48) IN DivGo(x, n, i + 1, cur % n, Append(acc, 48 + (cur \div n)))
DivSmall(x, n) == DivGo(x, n, 1, 0, <<>>)
DecOf(v) == IF v.t = "I" THEN v.s ELSE NatText(v.n)
RECURSIVE SumDec(_, _, _)
SumDec(vs, i, acc) == IF i > Len(vs) THEN acc ELSE SumDec(vs, i + 1, AddDec(acc, DecOf(vs[i])))
MkBigOrInt(d) == IF Len(d) <= 9 THEN VInt(DigitsVal(d, 1, 0)) ELSE VBig(d)
\* an integer-valued float as the engine's values are recorded: small ones as dyadics, from 2^31 on by their shortest text
RECURSIVE TrimZerosR(_)
TrimZerosR(q) == IF Len(q) > 1 /\ q[Len(q)] = 48 THEN TrimZerosR(SubSeq(q, 1, Len(q) - 1)) ELSE q
TwoDigits(n) == IF n < 10 THEN <<48, 48 + n>> ELSE NatText(n)
Max53 == <<57,48,48,55,49,57,57,50,53,52,55,52,48,57,57,50>>                                   \* 2^53
Below53(d) == Len(d) < 16 \/ (Len(d) = 16 /\ ~LexLess(Max53, d))
\* a positive integer is a float64 iff its odd part is below 2^53
RECURSIVE IsF64Int(_, _)
IsF64Int(d, fuel) == Below53(d) \/ (fuel > 0 /\ DivSmall(d, 2).r = 0 /\ IsF64Int(DivSmall(d, 2).q, fuel - 1))
FloatOfDec(d) ==
  IF Len(d) <= 9 THEN VFlt(DigitsVal(d, 1, 0), 0)
  ELSE IF ~Below53(d) THEN VUnspec                                                                \* shortest text not modelled there
  ELSE LET m == TrimZerosR(d) IN
       V("F", <<m[1]>> \o (IF Len(m) > 1 THEN <<46>> \o Tail(m) ELSE <<>>) \o <<101, 43>> \o TwoDigits(Len(d) - 1), 0, 0, <<>>)

Aggregate(f, args, ps, env) ==
  LET raw  == [i \in 1..Len(ps) |-> IF Len(args) >= 1 THEN Eval(args[1], ps[i], env) ELSE VUnspec]
      \* the numeric aggregates read a text argument the way int() / float() do (integer text = integer, else float text)
      vals == IF f \in {"sum", "avg", "min", "max"}
              THEN [i \in 1..Len(raw) |-> IF raw[i].t = "s" THEN (IF IsIntText(raw[i].s) THEN VInt(IntOfText(raw[i].s)) ELSE FloatOfText(raw[i].s)) ELSE raw[i]]
              ELSE raw
      allNum == \A i \in 1..Len(vals) : IsNum(vals[i])
      \* non-negative integers of which at least one is beyond TLC's range: exact decimal arithmetic
      bigInts == /\ Len(vals) >= 1 /\ \E i \in 1..Len(vals) : vals[i].t = "I"
                 /\ \A i \in 1..Len(vals) : (vals[i].t = "I" /\ vals[i].s[1] # 45) \/ (vals[i].t = "i" /\ vals[i].n >= 0)
      bigSum == SumDec(vals, 1, <<48>>)
  IN CASE f = "count" -> VInt(Len(ps))
       [] f = "sum" -> IF allNum THEN NumSum(vals, 2, vals[1])
                       ELSE IF bigInts /\ Len(bigSum) <= 18 THEN MkBigOrInt(bigSum) ELSE VUnspec
       [] f = "avg" -> IF allNum THEN LET s == NumSum(vals, 2, vals[1]) IN
                                      IF IsBad(s) THEN VUnspec ELSE EvalMath("/", VFlt(s.n, NumD(s)), VFlt(Len(ps), 0))
                       \* float64(sum) / float64(count): exact when the sum is a float64 and the mean an integer below 2^53
                       ELSE IF bigInts /\ Len(bigSum) <= 18 /\ IsF64Int(bigSum, 12)
                            THEN LET dv == DivSmall(bigSum, Len(vals)) IN IF dv.r = 0 THEN FloatOfDec(dv.q) ELSE VUnspec
                       ELSE VUnspec
       [] f = "min" -> IF allNum THEN NumExt(vals, 2, vals[1], TRUE) ELSE VUnspec
       [] f = "max" -> IF allNum THEN NumExt(vals, 2, vals[1], FALSE) ELSE VUnspec
       [] f = "group_concat" ->
            IF Len(args) = 2 /\ args[2].k = "str" /\ \A i \in 1..Len(vals) : StrOf(vals[i]).t = "s"
            THEN VStr(Join([i \in 1..Len(vals) |-> StrOf(vals[i]).s], args[2].s)) ELSE VUnspec
       [] f = "json_arrayagg" ->
            IF \A i \in 1..Len(vals) : vals[i].t \in {"s", "i"} THEN VStr(RenderJson(VList(vals))) ELSE VUnspec
       [] OTHER -> VUnspec            \* quantile: approximate by definition

\* does the expression mention (by name) a select field that is an aggregate ?
RECURSIVE RefsAggr(_, _)
RefsAggr(e, env) == \/ (e.k = "name" /\ EnvFind(env, e.op, 1) # 0 /\ HasAggr(env[EnvFind(env, e.op, 1)].e))
                    \/ \E i \in 1..Len(e.a) : RefsAggr(e.a[i], env)
RECURSIVE AggEval(_, _, _)
AggEval(e, ps, env) ==
  IF e.k = "call" /\ e.op \in AggrNames THEN Aggregate(e.op, e.a, ps, env)
  ELSE IF e.k = "name" /\ EnvFind(env, e.op, 1) # 0 /\ HasAggr(env[EnvFind(env, e.op, 1)].e) THEN
       \* the name of another aggregate field: that field's value for THIS group
       LET i == EnvFind(env, e.op, 1) IN AggEval(env[i].e, ps, SubSeq(env, 1, i - 1) \o SubSeq(env, i + 1, Len(env)))
  ELSE IF e.k = "bin" /\ (HasAggr(e) \/ RefsAggr(e, env)) THEN EvalBin(e.op, AggEval(e.a[1], ps, env), AggEval(e.a[2], ps, env))
  ELSE Eval(e, ps[1], env)

AggRows(stmt, pairs, env) ==
  LET gs == Groups(stmt, pairs, env) IN
  [g \in 1..Len(gs) |-> [i \in 1..Len(stmt.fields) |-> AggEval(stmt.fields[i].e, gs[g].ps, env)]]

-----------------------------------------------------------------------------
(* SELECT as a whole *)

\* rows before ORDER BY / LIMIT
BaseRows(stmt, store) ==
  LET env == EnvOf(stmt)
      ps  == Filtered(store, stmt.where, env)
  IN IF IsAggStmt(stmt) THEN AggRows(stmt, ps, env)
     ELSE [i \in 1..Len(ps) |-> ProjectRow(stmt.fields, ps[i], env)]

\* An aggregate SELECT shows a GROUP BY field as the group's value; the engine renders it as text
\* (int(value) as n appears as '5').  "Shows that group's value" is read as content: a text column is
\* accepted for an integer / Boolean group value when it is that value's canonical text.
GroupCol(stmt, j) == IsAggStmt(stmt) /\ j <= Len(stmt.fields) /\ ~HasAggr(stmt.fields[j].e)
TrueText == <<116, 114, 117, 101>>
FalseText == <<102, 97, 108, 115, 101>>
AsContractKind(want, got) ==
  IF got.t # "s" THEN got
  ELSE IF want.t \in {"i", "I"} /\ IsIntText(got.s) /\ IntText(IntOfText(got.s)) = got.s THEN VInt(IntOfText(got.s))
  ELSE IF want.t \in {"i", "I"} /\ BigIntText(got.s) /\ CanonInt(got.s) = got.s THEN VBig(got.s)
  ELSE IF want.t = "b" /\ got.s \in {TrueText, FalseText} THEN VBool(got.s = TrueText)
  ELSE got
\* engine rows with group columns brought to the kind the contract's rows have in that column
FixRows(stmt, base, rows) ==
  IF ~IsAggStmt(stmt) \/ base = <<>> THEN rows
  ELSE [i \in 1..Len(rows) |-> [j \in 1..Len(rows[i]) |->
          IF GroupCol(stmt, j) /\ j <= Len(base[1]) THEN AsContractKind(base[1][j], rows[i][j]) ELSE rows[i][j]]]

\* ... B variants take the base rows already computed (TLC does not memoise operator applications)
\* does the expression call function f anywhere ?
RECURSIVE Calls(_, _)
Calls(e, f) == (e.k = "call" /\ e.op = f) \/ \E i \in 1..Len(e.a) : Calls(e.a[i], f)
ModelledB(stmt, store, base) ==
  /\ ~\E i \in 1..Len(stmt.fields) : Calls(stmt.fields[i].e, "quantile")      \* approximate by definition; percent rules are the engine's own
  /\ Evaluable(store, stmt.where, EnvOf(stmt))
  /\ \A i \in 1..Len(base) : ~RowBad(base[i])
  /\ (IsAggStmt(stmt) /\ stmt.group # <<>>) =>
        LET ps == Filtered(store, stmt.where, EnvOf(stmt)) IN
        \A i \in 1..Len(ps) : ~RowBad(GroupKey(stmt, ps[i], EnvOf(stmt)))
Modelled(stmt, store) == ModelledB(stmt, store, BaseRows(stmt, store))

\* the documented meaning of the statement is "fails": some selected field definitely fails on a pair
\* that passes WHERE and nothing in the statement is unmodelled (field evaluation is strict)
ErrExpectedB(stmt, store, base) ==
  /\ Evaluable(store, stmt.where, EnvOf(stmt))
  /\ \A i \in 1..Len(base) : \A j \in 1..Len(base[i]) : base[i][j].t # "unspec"
  /\ \E i \in 1..Len(base) : \E j \in 1..Len(base[i]) : base[i][j].t = "err"

\* is `rows` an allowed answer to stmt, whose rows before ORDER BY / LIMIT are `base` ?
SelectOKB(stmt, base, rows0) ==
  LET rows == FixRows(stmt, base, rows0) IN
  IF stmt.order = <<>> THEN
       rows = (IF stmt.lim.has THEN Take(base, stmt.lim.s, stmt.lim.n) ELSE base)
  ELSE IF ~Comparable(base, stmt.order) THEN TRUE            \* no documented order: nothing to conclude
  ELSE IF stmt.lim.has THEN ValidSlice(rows, base, stmt.order, stmt.lim.s, stmt.lim.n)
  ELSE ValidOrder(rows, base, stmt.order)
SelectOK(stmt, store, rows) == SelectOKB(stmt, BaseRows(stmt, store), rows)

-----------------------------------------------------------------------------
(* Writes *)

Keys(store) == [i \in 1..Len(store) |-> store[i].k]
Without(store, ks) == SelectSeq(store, LAMBDA p : \A j \in 1..Len(ks) : ks[j] # p.k)

\* DELETE: the keys select * where P [limit] returns
DeleteKeys(stmt, store) ==
  LET ps == Filtered(store, stmt.where, <<>>)
      sl == IF stmt.lim.has THEN Take(ps, stmt.lim.s, stmt.lim.n) ELSE ps
  IN [i \in 1..Len(sl) |-> sl[i].k]

\* PUT: pairs evaluated left to right, value sees its own evaluated key
PutPairVal(pr) ==
  LET kv == StrOf(Eval(pr.k, Pair(<<>>, <<>>), <<>>))
      vv == IF kv.t = "s" THEN StrOf(Eval(pr.v, Pair(kv.s, <<>>), <<>>)) ELSE kv
  IN [k |-> kv, v |-> vv]
PutVals(stmt) == [i \in 1..Len(stmt.pairs) |-> PutPairVal(stmt.pairs[i])]
PutStatus(stmt) == LET pv == PutVals(stmt)
                       all == [i \in 1..(2 * Len(pv)) |-> IF i % 2 = 1 THEN pv[(i + 1) \div 2].k ELSE pv[i \div 2].v]
                   IN IF AnyBad(all) THEN Worst(all).t ELSE "ok"
RemoveVals(stmt) == [i \in 1..Len(stmt.keys) |-> StrOf(Eval(stmt.keys[i], Pair(<<>>, <<>>), <<>>))]
RemoveStatus(stmt) == IF AnyBad(RemoveVals(stmt)) THEN Worst(RemoveVals(stmt)).t ELSE "ok"

\* a store as a function from keys, for comparing states
AsMap(store) == [k \in {store[i].k : i \in 1..Len(store)} |-> (CHOOSE i \in 1..Len(store) : store[i].k = k)]
ValOf(store, k) == store[CHOOSE i \in 1..Len(store) : store[i].k = k].v
SameStore(a, b) == /\ {a[i].k : i \in 1..Len(a)} = {b[i].k : i \in 1..Len(b)}
                   /\ \A i \in 1..Len(a) : ValOf(b, a[i].k) = a[i].v

=============================================================================
