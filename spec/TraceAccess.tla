----------------------------- MODULE TraceAccess -----------------------------
(***************************************************************************)
(* Trace validation for C18: the storage reads of one statement, event by  *)
(* event, against the access envelope the clause's pinning conjuncts       *)
(* license (KvRegion!Pins / FaceUnsat, carried by the record).             *)
(*                                                                         *)
(*  PointRead(k)   Get(k): k lies in the pinned set or region              *)
(*  ReadIn(k)      cursor read of a key inside a PREFIX/RANGE envelope     *)
(*  ReadBeyond(k)  first key past the end; no further read in that poll    *)
(*  a key before the region start is never read; an unsatisfiable clause   *)
(*  reads nothing.  `alive` is the set of envelopes every event so far is  *)
(*  consistent with ("one of its conjuncts").                              *)
(***************************************************************************)
EXTENDS KvRegion, Json

Trace == ndJsonDeserialize("access.ndjson")
VARIABLES l, j, alive, beyond,
          nb        \* reads past the end of every envelope still alive, counted over the whole statement
vars == <<l, j, alive, beyond, nb>>

Case == Trace[l]
Ev == Case.events[j]
Env(c, p) == LET x == c.pins[p] IN
             [tp |-> x.tp, ks |-> x.ks, lo |-> IF x.haslo THEN x.lo ELSE NIL, hi |-> IF x.hashi THEN x.hi ELSE NIL]
AllPins(c) == 1..Len(c.pins)

\* a point read of a key inside the pinned set or region
PointRead(c, al, k) == {p \in al : EnvIn(k, Env(c, p))}
\* `by[p]` counts the reads past the end of envelope p in the current poll.  A plain statement may make one (the read that
\* detects the end); a statement whose single poll drives the scan several times (LIMIT skipping, ORDER BY draining: the
\* record says so in `slack`) may make 1 + slack: one per internal poll that has to find the end again.
ScanRead(c, al, by, k) == {p \in al : /\ Env(c, p).tp \in {"PREFIX", "RANGE"} /\ ~EnvBefore(k, Env(c, p))
                                      /\ IF EnvIn(k, Env(c, p)) THEN by[p] = 0 ELSE by[p] <= c.slack}
Bump(c, by, a2, k) == [p \in 1..Len(c.pins) |-> IF p \in a2 /\ ~EnvIn(k, Env(c, p)) THEN by[p] + 1 ELSE by[p]]
Zero(c) == [p \in 1..Len(c.pins) |-> 0]

\* effect of one event: [ok, alive, beyond]
Apply(c, ev, al, by) ==
  IF ev.op \in {"Poll", "BatchDelete", "Delete"} THEN [ok |-> TRUE, alive |-> al, beyond |-> Zero(c)]
  ELSE IF ev.op = "Get" THEN
       LET a2 == PointRead(c, al, ev.k) IN [ok |-> ~c.unsat /\ a2 # {}, alive |-> a2, beyond |-> by]
  ELSE IF ev.op = "Next" THEN
       IF c.unsat THEN [ok |-> FALSE, alive |-> al, beyond |-> by]
       ELSE IF ~ev.ok THEN [ok |-> \E p \in al : Env(c, p).tp \in {"PREFIX", "RANGE"}, alive |-> {p \in al : Env(c, p).tp \in {"PREFIX", "RANGE"}}, beyond |-> by]
       ELSE LET a2 == ScanRead(c, al, by, ev.k)
                past == a2 # {} /\ \A p \in a2 : ~EnvIn(ev.k, Env(c, p))
            IN \* a statement that drains its scan once (an aggregate: record field total > 0) reads past the end at most `total`
               \* times altogether, however often it is polled for its groups afterwards
               [ok |-> a2 # {} /\ ~(past /\ c.total > 0 /\ nb >= c.total), alive |-> a2, beyond |-> Bump(c, by, a2, ev.k)]
  ELSE [ok |-> TRUE, alive |-> al, beyond |-> by]

Init == l = 1 /\ j = 1 /\ nb = 0 /\ alive = (IF Len(Trace) >= 1 THEN AllPins(Trace[1]) ELSE {}) /\ beyond = (IF Len(Trace) >= 1 THEN Zero(Trace[1]) ELSE <<>>)
NextCase == /\ l' = l + 1 /\ j' = 1 /\ nb' = 0
            /\ beyond' = IF l + 1 <= Len(Trace) THEN Zero(Trace[l + 1]) ELSE <<>>
            /\ alive' = IF l + 1 <= Len(Trace) THEN AllPins(Trace[l + 1]) ELSE {}
Next == /\ l <= Len(Trace)
        /\ IF j > Len(Case.events) THEN NextCase
           ELSE LET r == Apply(Case, Ev, alive, beyond) IN
                IF r.ok THEN /\ alive' = r.alive /\ beyond' = r.beyond /\ j' = j + 1 /\ l' = l
                             /\ nb' = nb + (IF Ev.op = "Next" /\ Ev.ok /\ ~Case.unsat /\ \A p \in r.alive : ~EnvIn(Ev.k, Env(Case, p)) THEN 1 ELSE 0)
                ELSE PrintT(<<"REJECT", Case.id, "read-outside-envelope", j, Ev>>) /\ NextCase
Done == l = Len(Trace) + 1
=============================================================================
