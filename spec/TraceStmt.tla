------------------------------ MODULE TraceStmt ------------------------------
(***************************************************************************)
(* Trace validation of statement executions (C01 C03 C04 C05 C07 C08 C09   *)
(* C10).  A record holds a statement (AST), the store it ran on, and a set *)
(* of runs of the real engine: the statement itself in row and batch mode  *)
(* at several batch sizes with the field cache on and off ("main"), and,   *)
(* depending on the property, the same statement without its LIMIT         *)
(* ("nolimit"), without its ORDER BY ("noorder") or with every alias use   *)
(* replaced by its definition ("expanded").                                *)
(*                                                                         *)
(* The verdict is computed from the KvExec contract:                       *)
(*   contract : every completed main run returns an answer SelectOK allows *)
(*   agree    : all main (and expanded) runs return the same result        *)
(*   shape    : every row has one column per announced field               *)
(*   ordered  : ordered rows are a sorted permutation of the unordered run *)
(*   sliced   : limited rows are the slice of the unlimited run            *)
(***************************************************************************)
EXTENDS KvExec, KvPlanner, Json

Trace == ndJsonDeserialize("stmt.ndjson")
VARIABLE i

Runs(c, role) == SelectSeq(c.runs, LAMBDA r : r.role = role)
Done(rs) == SelectSeq(rs, LAMBDA r : r.phase = "done")

\* the same result: equal sequences; under ORDER BY the same rows with the same order keys at every position
SameResult(a, b, order) ==
  IF order = <<>> THEN a = b
  ELSE /\ SameBag(a, b)
       /\ \A x \in 1..Len(a) : RowCmp(a[x], b[x], order) \in {"eq", "u"}

Agree(c, rs) ==
  \A x \in 1..Len(rs) : \A y \in 1..Len(rs) :
     (x < y /\ rs[x].phase = "done" /\ rs[y].phase = "done") =>
        (IF c.stmt.lim.has /\ c.stmt.order # <<>> THEN Len(rs[x].rows) = Len(rs[y].rows)     \* ties cut by LIMIT: judged by `contract`
         ELSE SameResult(rs[x].rows, rs[y].rows, c.stmt.order))

\* whenever batch iteration completes without error, row iteration completes without error too
BatchImpliesRow(rs) ==
  \A x \in 1..Len(rs) : \A y \in 1..Len(rs) :
     (rs[x].mode = "batch" /\ rs[x].phase = "done" /\ rs[y].mode = "row" /\ rs[y].cache = rs[x].cache) => rs[y].phase = "done"

Shape(c, rs) == \A x \in 1..Len(rs) : rs[x].phase = "done" => \A y \in 1..Len(rs[x].rows) : Len(rs[x].rows[y]) = c.nfields

Contract(c, base, rs) ==
  \A x \in 1..Len(rs) : /\ rs[x].phase = "done"
                        /\ SelectOKB(c.stmt, base, rs[x].rows)

Ordered(c) ==
  LET ms == Done(Runs(c, "main"))  us == Done(Runs(c, "noorder")) IN
  \A x \in 1..Len(ms) : \A y \in 1..Len(us) :
     (ms[x].mode = us[y].mode /\ ms[x].bs = us[y].bs /\ ms[x].cache = us[y].cache) =>
        (IF ~Comparable(us[y].rows, c.stmt.order) THEN TRUE
         ELSE IF c.stmt.lim.has THEN TRUE
         ELSE ValidOrder(ms[x].rows, us[y].rows, c.stmt.order))

Sliced(c) ==
  LET ms == Done(Runs(c, "main"))  us == Done(Runs(c, "nolimit")) IN
  \A x \in 1..Len(ms) : \A y \in 1..Len(us) :
     (ms[x].mode = us[y].mode /\ ms[x].bs = us[y].bs /\ ms[x].cache = us[y].cache) =>
        (IF ~c.stmt.lim.has THEN ms[x].rows = us[y].rows
         ELSE IF c.stmt.order = <<>> THEN ms[x].rows = Take(us[y].rows, c.stmt.lim.s, c.stmt.lim.n)
         ELSE IF ~Comparable(us[y].rows, c.stmt.order) THEN TRUE
         ELSE ValidSlice(ms[x].rows, us[y].rows, c.stmt.order, c.stmt.lim.s, c.stmt.lim.n))

\* the annotated document is the stored text, white space around it aside
RECURSIVE TrimL(_), TrimR(_)
TrimL(t) == IF Len(t) > 0 /\ t[1] \in {32, 9, 10, 13} THEN TrimL(Tail(t)) ELSE t
TrimR(t) == IF Len(t) > 0 /\ t[Len(t)] \in {32, 9, 10, 13} THEN TrimR(SubSeq(t, 1, Len(t) - 1)) ELSE t
DocsOK(c) == \A x \in 1..Len(c.store) : c.store[x].doc.t = "unspec" \/ RenderJson(c.store[x].doc) = TrimR(TrimL(c.store[x].v))

\* can the (optimised) expression be written back in the language ?  no negative number, no Boolean literal as an operand
RECURSIVE Writable(_)
Writable(e) == /\ ~(e.k \in {"int", "flt"} /\ e.n < 0)
               /\ ~(e.k \in {"bin", "not", "call", "list", "idx"} /\ \E x \in 1..Len(e.a) : e.a[x].k = "bool")
               /\ \A x \in 1..Len(e.a) : Writable(e.a[x])
\* every constant sub-expression (no key, value or name in it) has a value the contract knows
RECURSIVE RowFree(_), ConstsKnown(_)
RowFree(e) == e.k \notin {"key", "val", "name"} /\ \A x \in 1..Len(e.a) : RowFree(e.a[x])
ConstsKnown(e) == IF RowFree(e) /\ e.k \in {"bin", "not", "call", "idx"} THEN Eval(e, Pair(<<>>, <<>>), <<>>).t # "unspec"
                  ELSE \A x \in 1..Len(e.a) : ConstsKnown(e.a[x])
Verdict(c) ==
  LET main == Runs(c, "main")
      expl == Runs(c, "explained")        \* the plan's printed filter put back into a statement (C15: "the filter shown by EXPLAIN is the filter executed")
      all  == main \o Runs(c, "expanded") \o Runs(c, "unfolded") \o expl
  IN IF ~SortedStore(c.store) \/ ~DocsOK(c) THEN "infra-bad-store-in-record"
     \* (the optimised filter may hold what the language cannot write - a bare true / false as an operand, a negative
     \* number; the KvFold design says when: then a refusal is not judged.  Otherwise it must be accepted, and whenever it is
     \* accepted it must select the same rows)
     ELSE IF /\ \E x \in 1..Len(expl) : expl[x].phase = "rejected" /\ \E y \in 1..Len(main) : main[y].phase = "done"
             /\ Writable(Optimize(c.stmt.where)) /\ ConstsKnown(c.stmt.where)
             /\ c.store # <<>> /\ Modelled(c.stmt, c.store)         \* (the design's folding is only known where the contract knows the constants)
          THEN "explained-filter-is-not-accepted"
     ELSE IF ~Agree(c, expl \o (IF main = <<>> THEN <<>> ELSE <<main[1]>>)) THEN "explained-filter-selects-other-rows"
     ELSE IF "agree" \in c.checks /\ ~Agree(c, all) THEN "runs-disagree"
     ELSE IF "agree" \in c.checks /\ ~BatchImpliesRow(main) THEN "batch-completes-but-row-fails"
     ELSE IF "shape" \in c.checks /\ ~Shape(c, all) THEN "row-width-differs-from-field-list"
     ELSE IF "ordered" \in c.checks /\ ~Ordered(c) THEN "not-a-sorted-permutation"
     ELSE IF "sliced" \in c.checks /\ ~Sliced(c) THEN "not-the-requested-slice"
     \* runs with one storage call failing: the statement fails with that error (C13, judged here for aggregates, whose result
     \* would otherwise silently cover only part of the group)
     ELSE IF \E x \in 1..Len(c.runs) : c.runs[x].role = "faulted" /\ ~(c.runs[x].phase = "failed" /\ c.runs[x].errkind = "fault") THEN "storage-error-not-surfaced"
     ELSE IF "contract" \in c.checks THEN
          LET base == BaseRows(c.stmt, c.store) IN
          IF ErrExpectedB(c.stmt, c.store, base) /\ ~c.stmt.lim.has /\ (~IsAggStmt(c.stmt) \/ c.stmt.order = <<>>) THEN
               (IF \A x \in 1..Len(main) : main[x].phase \in {"failed", "rejected"} THEN "ok" ELSE "documented-failure-not-reported")   \* refused when built (a literal zero divisor) or when run
          ELSE IF ~ModelledB(c.stmt, c.store, base) THEN "unmodelled"
          ELSE IF ~Contract(c, base, main) THEN "differs-from-contract" ELSE "ok"
     ELSE "ok"

\* how much of the record the contract models (for the evidence)
Init == i = 1
Next == /\ i <= Len(Trace)
        /\ i' = i + 1
        /\ LET c == [Trace[i] EXCEPT !.checks = Range(Trace[i].checks)]
               v == Verdict(c)
           IN /\ IF v = "ok" THEN TRUE
                 ELSE IF v = "unmodelled" THEN PrintT(<<"UNMODELLED", c.id>>)
                 ELSE PrintT(<<"REJECT", c.id, v>>)
              \* the plan the engine built against the planner design (KvPlanner): a difference is design drift, not a verdict
              /\ IF c.chain = <<>> \/ c.chain = ChainOf(c.stmt) THEN TRUE
                 ELSE PrintT(<<"DRIFT", c.id, c.chain, ChainOf(c.stmt)>>)
=============================================================================
