------------------------------- MODULE KvEval -------------------------------
(***************************************************************************)
(* CONTRACT layer: the meaning of kvql expressions, written from README.md *)
(* and spec.md.  Eval(e, p, env) is the value of expression e on the pair  *)
(* p = [k, v, doc] (doc = the JSON document the value text renders, or     *)
(* VUnspec) with alias environment env = <<[nm, e], ...>>.                  *)
(*                                                                         *)
(* Where the documentation is silent the result is VUnspec; where the      *)
(* documented meaning is "fails" it is VErr.  Both propagate strictly.     *)
(***************************************************************************)
EXTENDS KvBase

-----------------------------------------------------------------------------
(* Regular expressions: a closed pool of shapes with a definable meaning   *)

PlainByte(c) == IsDigit(c) \/ (c >= 65 /\ c <= 90) \/ (c >= 97 /\ c <= 122) \/ c \in {95, 58, 44, 32}
AllPlain(s) == \A i \in 1..Len(s) : PlainByte(s[i])
DotStarAt(s) == IF \E i \in 1..(Len(s) - 1) : s[i] = 46 /\ s[i + 1] = 42
                THEN CHOOSE i \in 1..(Len(s) - 1) : s[i] = 46 /\ s[i + 1] = 42 /\ \A j \in 1..(i - 1) : ~(s[j] = 46 /\ s[j + 1] = 42)
                ELSE 0
\* result: "t" / "f" / "u"
RegexMatch(s, pat) ==
  LET a1   == Len(pat) > 0 /\ pat[1] = 94
      p1   == IF a1 THEN SubSeq(pat, 2, Len(pat)) ELSE pat
      a2   == Len(p1) > 0 /\ p1[Len(p1)] = 36
      body == IF a2 THEN SubSeq(p1, 1, Len(p1) - 1) ELSE p1
      ds   == DotStarAt(body)
      T(b) == IF b THEN "t" ELSE "f"
  IN IF AllPlain(body) THEN
          IF a1 /\ a2 THEN T(s = body)
          ELSE IF a1 THEN T(HasPrefix(s, body))
          ELSE IF a2 THEN T(HasSuffix(s, body))
          ELSE T(Contains(s, body))
     ELSE IF ds > 0 /\ a1 /\ a2 THEN
          LET pa == SubSeq(body, 1, ds - 1)
              pb == SubSeq(body, ds + 2, Len(body))
          IN IF AllPlain(pa) /\ AllPlain(pb) THEN
                  T(/\ Len(s) >= Len(pa) + Len(pb)
                    /\ HasPrefix(s, pa) /\ HasSuffix(s, pb)
                    /\ \A i \in (Len(pa) + 1)..(Len(s) - Len(pb)) : s[i] # 10)
             ELSE "u"
     ELSE "u"

-----------------------------------------------------------------------------
(* Numbers *)

MkInt(n) == IF Small(n) THEN VInt(n) ELSE VUnspec
MkFlt(n, d) == LET x == NormDy(n, d) IN IF Small(x[1]) /\ x[2] <= 20 THEN VFlt(x[1], x[2]) ELSE VUnspec

\* exact dyadic quotient num/den (den > 0), or unspec
RECURSIVE DyQuot(_, _, _)
DyQuot(num, den, k) ==
  IF k > 12 \/ ~Small(num) THEN VUnspec
  ELSE IF num % den = 0 THEN MkFlt(num \div den, k)
  ELSE DyQuot(num * 2, den, k + 1)

EvalMath(op, a, b) ==
  IF a.t = "s" /\ b.t = "s" THEN (IF op = "+" THEN VStr(a.s \o b.s) ELSE VUnspec)
  ELSE IF ~(IsNum(a) /\ IsNum(b)) THEN VUnspec
  ELSE IF a.t = "i" /\ b.t = "i" THEN
       CASE op = "+" -> MkInt(a.n + b.n)
         [] op = "-" -> MkInt(a.n - b.n)
         [] op = "*" -> IF (Small(a.n) /\ Abs(b.n) < 30) \/ (Small(b.n) /\ Abs(a.n) < 30) \/ (Abs(a.n) < 7000 /\ Abs(b.n) < 7000)
                        THEN MkInt(a.n * b.n) ELSE VUnspec
         [] op = "/" -> IF b.n = 0 THEN VErr
                        ELSE IF b.n > 0 /\ a.n % b.n = 0 THEN MkInt(a.n \div b.n)
                        ELSE IF b.n < 0 /\ (0 - a.n) % (0 - b.n) = 0 THEN MkInt((0 - a.n) \div (0 - b.n))
                        ELSE VUnspec          \* inexact integer division: documentation silent
         [] OTHER -> VUnspec
  ELSE LET ad == NumD(a)  bd == NumD(b)
           m  == Max2(ad, bd)
           an == a.n * Pow2(m - ad)
           bn == b.n * Pow2(m - bd)
       IN IF ~(Small(an) /\ Small(bn)) THEN VUnspec
          ELSE CASE op = "+" -> MkFlt(an + bn, m)
                 [] op = "-" -> MkFlt(an - bn, m)
                 [] op = "*" -> IF Abs(a.n) < 7000 /\ Abs(b.n) < 7000 THEN MkFlt(a.n * b.n, ad + bd) ELSE VUnspec
                 [] op = "/" -> IF b.n = 0 THEN VErr
                                ELSE IF bn > 0 THEN DyQuot(an, bn, 0) ELSE DyQuot(0 - an, 0 - bn, 0)
                 [] OTHER -> VUnspec

\* decimal text [+-]digits[.digits] -> dyadic float when exact
DotPos(s) == IF \E i \in 1..Len(s) : s[i] = 46 THEN CHOOSE i \in 1..Len(s) : s[i] = 46 /\ \A j \in 1..(i-1) : s[j] # 46 ELSE 0
RECURSIVE Pow5(_)
Pow5(k) == IF k <= 0 THEN 1 ELSE 5 * Pow5(k - 1)
IsDecText(s) ==
  LET b == IntBody(s)  dp == DotPos(b) IN
  IF dp = 0 THEN AllDigits(b)
  ELSE /\ dp > 1 /\ dp < Len(b)
       /\ AllDigits(SubSeq(b, 1, dp - 1)) /\ AllDigits(SubSeq(b, dp + 1, Len(b)))
FloatOfText(s) ==
  LET b == IntBody(s)  dp == DotPos(b)
      neg == Len(s) > 0 /\ s[1] = 45
      ip == IF dp = 0 THEN b ELSE SubSeq(b, 1, dp - 1)
      fp == IF dp = 0 THEN <<>> ELSE SubSeq(b, dp + 1, Len(b))
      f  == Len(fp)
  IN IF ~IsDecText(s) \/ Len(ip) + f > 9 \/ f > 9 THEN VUnspec
     ELSE LET num == DigitsVal(ip \o fp, 1, 0) IN
          IF num % Pow5(f) # 0 THEN VUnspec
          ELSE MkFlt((IF neg THEN -1 ELSE 1) * (num \div Pow5(f)), f)

\* bytes that may occur in some text strconv.ParseFloat accepts
FloatishByte(c) == IsDigit(c) \/ c \in {43, 45, 46, 95}
                   \/ LowerByte(c) \in {97, 98, 99, 100, 101, 102, 105, 110, 112, 116, 120, 121}

-----------------------------------------------------------------------------
(* Conversions used by several functions *)

StrOf(v) == CASE v.t = "s" -> VStr(v.s)
              [] v.t = "i" -> VStr(IntText(v.n))
              [] v.t = "I" -> VStr(v.s)
              [] v.t = "b" -> VStr(IF v.n = 1 THEN <<116,114,117,101>> ELSE <<102,97,108,115,101>>)
              [] v.t = "err" -> v                                  \* a failed evaluation stays a failure
              [] OTHER -> VUnspec

\* an element of a numeric vector as an integer, when it is one
ElemInt(v) == CASE v.t = "i" -> v
                [] v.t = "f" -> IF v.d = 0 THEN VInt(v.n) ELSE VUnspec
                [] v.t = "s" -> IF IsIntText(v.s) THEN VInt(IntOfText(v.s)) ELSE VUnspec
                [] OTHER -> VUnspec

RECURSIVE ISqrtFrom(_, _)
ISqrtFrom(n, r) == IF r * r >= n THEN r ELSE ISqrtFrom(n, r + 1)
ISqrt(n) == ISqrtFrom(n, 0)
IsSquare(n) == n >= 0 /\ n < 4000000 /\ ISqrt(n) * ISqrt(n) = n

RECURSIVE SumSeq(_, _)
SumSeq(s, i) == IF i > Len(s) THEN 0 ELSE s[i] + SumSeq(s, i + 1)

VecInts(v) == [i \in 1..Len(v.l) |-> ElemInt(v.l[i])]
VecOk(v) == v.t = "l" /\ \A i \in 1..Len(v.l) : ElemInt(v.l[i]).t = "i" /\ Abs(ElemInt(v.l[i]).n) < 1000

L2(a, b) ==
  IF ~(a.t = "l" /\ b.t = "l") THEN VUnspec
  ELSE IF Len(a.l) # Len(b.l) THEN VErr
  ELSE IF ~(VecOk(a) /\ VecOk(b)) THEN VUnspec
  ELSE LET x == VecInts(a)  y == VecInts(b)
           s == SumSeq([i \in 1..Len(x) |-> (x[i].n - y[i].n) * (x[i].n - y[i].n)], 1)
       IN IF IsSquare(s) THEN VFlt(ISqrt(s), 0) ELSE VUnspec

Cosine(a, b) ==
  IF ~(a.t = "l" /\ b.t = "l") THEN VUnspec
  ELSE IF Len(a.l) # Len(b.l) THEN VErr
  ELSE IF ~(VecOk(a) /\ VecOk(b)) THEN VUnspec
  ELSE LET x == VecInts(a)  y == VecInts(b)
           dot == SumSeq([i \in 1..Len(x) |-> x[i].n * y[i].n], 1)
           na  == SumSeq([i \in 1..Len(x) |-> x[i].n * x[i].n], 1)
           nb  == SumSeq([i \in 1..Len(x) |-> y[i].n * y[i].n], 1)
       IN IF ~(IsSquare(na) /\ IsSquare(nb)) \/ na = 0 \/ nb = 0 THEN VUnspec
          ELSE LET den == ISqrt(na) * ISqrt(nb)
                   q   == IF dot >= 0 THEN DyQuot(dot, den, 0) ELSE DyQuot(dot, den, 0)
               IN IF q.t # "f" THEN VUnspec ELSE MkFlt(Pow2(q.d) - q.n, q.d)

-----------------------------------------------------------------------------
(* Scalar functions (README table) *)

\* upper/lower are documented for ASCII case; text with other letters is unmodelled, binary text (bytes
\* that can never occur in UTF-8) keeps every non-letter byte
CaseMappable(s) == (\A i \in 1..Len(s) : s[i] < 128) \/ (\E i \in 1..Len(s) : s[i] \in {192, 193} \cup (245..255))

EvalCall(f, vs, p) ==
  IF AnyBad(vs) THEN Worst(vs)
  ELSE LET n == Len(vs)
           a1 == IF n >= 1 THEN vs[1] ELSE VUnspec
           a2 == IF n >= 2 THEN vs[2] ELSE VUnspec
           a3 == IF n >= 3 THEN vs[3] ELSE VUnspec
  IN CASE f = "lower" /\ n = 1 -> IF a1.t = "s" /\ CaseMappable(a1.s) THEN VStr(Lower(a1.s)) ELSE VUnspec
       [] f = "upper" /\ n = 1 -> IF a1.t = "s" /\ CaseMappable(a1.s) THEN VStr(Upper(a1.s)) ELSE VUnspec
       [] f = "int" /\ n = 1 ->
            CASE a1.t = "i" -> a1
              [] a1.t = "f" -> IF a1.d = 0 THEN VInt(a1.n) ELSE VUnspec
              [] a1.t = "s" -> IF IsIntText(a1.s) THEN VInt(IntOfText(a1.s))
                               ELSE IF BigIntText(a1.s) THEN VBig(CanonInt(a1.s)) ELSE VUnspec      \* every int64 digit is kept
              [] a1.t = "I" -> a1
              [] OTHER -> VUnspec
       [] f = "float" /\ n = 1 ->
            CASE a1.t = "i" -> VFlt(a1.n, 0)
              [] a1.t = "f" -> a1
              [] a1.t = "s" -> FloatOfText(a1.s)
              [] OTHER -> VUnspec
       [] f = "str" /\ n = 1 -> StrOf(a1)
       [] f = "strlen" /\ n = 1 -> IF StrOf(a1).t = "s" THEN VInt(Len(StrOf(a1).s)) ELSE VUnspec
       [] f = "is_int" /\ n = 1 ->
            CASE a1.t = "i" -> VBool(TRUE)
              [] a1.t = "s" -> IF AllDigits(IntBody(a1.s)) THEN (IF Len(IntBody(a1.s)) <= 18 THEN VBool(TRUE) ELSE VUnspec)
                               ELSE VBool(FALSE)
              [] OTHER -> VUnspec
       [] f = "is_float" /\ n = 1 ->
            CASE a1.t = "f" -> VBool(TRUE)
              [] a1.t = "s" -> IF IsDecText(a1.s) THEN VBool(TRUE)
                               ELSE IF a1.s = <<>> \/ \E i \in 1..Len(a1.s) : ~FloatishByte(a1.s[i]) THEN VBool(FALSE)
                               ELSE VUnspec
              [] OTHER -> VUnspec
       [] f = "substr" /\ n = 3 ->
            \* "from start position to end position": value[start:end]; positions outside the value are unmodelled
            IF a1.t = "s" /\ a2.t = "i" /\ a3.t = "i" /\ a2.n >= 0 /\ a2.n <= a3.n /\ a3.n <= Len(a1.s)
            THEN VStr(SubSeq(a1.s, a2.n + 1, a3.n))
            ELSE IF a1.t = "s" /\ a2.t = "i" /\ a3.t = "i" /\ a2.n = 0 /\ a3.n >= 0
            THEN VStr(SubSeq(a1.s, 1, Min2(a3.n, Len(a1.s)))) ELSE VUnspec
       [] f = "split" /\ n = 2 ->
            IF a1.t = "s" /\ a2.t = "s" /\ a2.s # <<>>
            THEN LET parts == Split(a1.s, a2.s) IN VList([i \in 1..Len(parts) |-> VStr(parts[i])])
            ELSE VUnspec
       [] f = "join" /\ n >= 2 ->
            IF a1.t # "s" THEN VUnspec
            ELSE LET ss == [i \in 1..(n - 1) |-> StrOf(vs[i + 1])] IN
                 IF AnyBad(ss) THEN VUnspec ELSE VStr(Join([i \in 1..(n - 1) |-> ss[i].s], a1.s))
       [] f = "len" /\ n = 1 -> IF a1.t = "l" THEN VInt(Len(a1.l)) ELSE VUnspec
       [] f = "list" /\ n >= 1 ->
            IF \A i \in 1..n : vs[i].t = "i" THEN VList(vs)
            ELSE IF \A i \in 1..n : vs[i].t = "f" THEN VList(vs)
            ELSE VUnspec
       [] f \in {"int_list", "ilist"} /\ n >= 1 ->
            IF \A i \in 1..n : vs[i].t = "i" THEN VList(vs) ELSE VUnspec
       [] f \in {"float_list", "flist"} /\ n >= 1 ->
            IF \A i \in 1..n : IsNum(vs[i]) THEN VList([i \in 1..n |-> VFlt(vs[i].n, NumD(vs[i]))]) ELSE VUnspec
       [] f = "l2_distance" /\ n = 2 -> L2(a1, a2)
       [] f = "cosine_distance" /\ n = 2 -> Cosine(a1, a2)
       [] f = "json" /\ n = 1 -> IF a1.t = "s" /\ a1.s = p.v THEN p.doc ELSE VUnspec
       [] OTHER -> VUnspec

-----------------------------------------------------------------------------
(* Operators *)

\* integers too long for TLC arithmetic (tag "I": canonical decimal text) compare by sign, length, digits
BigText(v) == IF v.t = "I" THEN v.s ELSE IntText(v.n)
BigMagLess(x, y) == Len(x) < Len(y) \/ (Len(x) = Len(y) /\ LexLess(x, y))
BigLess(x, y) == LET nx == x[1] = 45  ny == y[1] = 45 IN
                 IF nx /\ ~ny THEN TRUE ELSE IF ~nx /\ ny THEN FALSE
                 ELSE IF nx THEN BigMagLess(Tail(y), Tail(x)) ELSE BigMagLess(x, y)
BothInt(a, b) == a.t \in {"i", "I"} /\ b.t \in {"i", "I"} /\ "I" \in {a.t, b.t}
ValEq(a, b) ==      \* "t" / "f" / "u"
  IF BothInt(a, b) THEN (IF BigText(a) = BigText(b) THEN "t" ELSE "f") ELSE
  IF a.t = "s" /\ b.t = "s" THEN (IF a.s = b.s THEN "t" ELSE "f")
  ELSE IF IsNum(a) /\ IsNum(b) THEN (IF NumEq(a, b) THEN "t" ELSE "f")
  ELSE IF a.t = "b" /\ b.t = "b" THEN (IF a.n = b.n THEN "t" ELSE "f")
  ELSE "u"

ValLess(a, b) ==
  IF BothInt(a, b) THEN (IF BigLess(BigText(a), BigText(b)) THEN "t" ELSE "f")
  ELSE IF a.t = "s" /\ b.t = "s" THEN (IF LexLess(a.s, b.s) THEN "t" ELSE "f")
  ELSE IF IsNum(a) /\ IsNum(b) THEN (IF NumLess(a, b) THEN "t" ELSE "f")
  ELSE "u"

Tri(x) == IF x = "t" THEN VBool(TRUE) ELSE IF x = "f" THEN VBool(FALSE) ELSE VUnspec
TriNot(x) == IF x = "t" THEN "f" ELSE IF x = "f" THEN "t" ELSE "u"
TriOr(x, y) == IF x = "u" \/ y = "u" THEN "u" ELSE IF x = "t" \/ y = "t" THEN "t" ELSE "f"

EvalCmp(op, a, b) ==
  CASE op = "="  -> Tri(ValEq(a, b))
    [] op = "!=" -> Tri(TriNot(ValEq(a, b)))
    [] op = "<"  -> Tri(ValLess(a, b))
    [] op = ">"  -> Tri(ValLess(b, a))
    [] op = "<=" -> Tri(TriOr(ValLess(a, b), ValEq(a, b)))
    [] op = ">=" -> Tri(TriOr(ValLess(b, a), ValEq(a, b)))
    [] op = "^=" -> IF a.t = "s" /\ b.t = "s" THEN VBool(HasPrefix(a.s, b.s)) ELSE VUnspec
    [] op = "~=" -> IF a.t = "s" /\ b.t = "s" THEN Tri(RegexMatch(a.s, b.s)) ELSE VUnspec
    [] OTHER -> VUnspec

RECURSIVE InList(_, _, _)
InList(x, items, i) ==
  IF i > Len(items) THEN "f"
  ELSE LET e == ValEq(x, items[i]) IN
       IF e = "u" THEN "u" ELSE IF e = "t" THEN "t" ELSE InList(x, items, i + 1)

EvalBin(op, a, b) ==
  IF IsBad(a) \/ IsBad(b) THEN Worst(<<a, b>>)
  ELSE IF op \in AndOps THEN (IF a.t = "b" /\ b.t = "b" THEN VBool(a.n = 1 /\ b.n = 1) ELSE VUnspec)
  ELSE IF op \in OrOps THEN (IF a.t = "b" /\ b.t = "b" THEN VBool(a.n = 1 \/ b.n = 1) ELSE VUnspec)
  ELSE IF op \in MathOps THEN EvalMath(op, a, b)
  ELSE IF op = "in" THEN
       (IF b.t # "l" THEN VUnspec
        ELSE IF AnyBad(b.l) THEN Worst(b.l)
        ELSE Tri(InList(a, b.l, 1)))
  ELSE IF op = "between" THEN
       (IF b.t # "l" \/ Len(b.l) # 2 THEN VUnspec
        ELSE IF AnyBad(b.l) THEN Worst(b.l)
        ELSE IF ValLess(b.l[1], b.l[2]) # "t" THEN VUnspec     \* lower >= upper: the engine refuses; README silent
        ELSE Tri(TriNot(TriOr(ValLess(a, b.l[1]), ValLess(b.l[2], a)))))
  ELSE EvalCmp(op, a, b)

RECURSIVE FindMember(_, _, _)
FindMember(ms, name, i) ==
  IF i > Len(ms) THEN VUnspec              \* missing member: documentation silent
  ELSE IF ms[i].s = name THEN ms[i].l[1] ELSE FindMember(ms, name, i + 1)

EvalIdx(x, ix) ==
  IF IsBad(x) THEN x
  ELSE IF ix.k = "int" THEN (IF x.t = "l" /\ ix.n >= 0 /\ ix.n < Len(x.l) THEN x.l[ix.n + 1] ELSE VUnspec)
  ELSE IF ix.k = "str" THEN (IF x.t = "j" THEN FindMember(x.l, ix.s, 1) ELSE VUnspec)
  ELSE VUnspec

RECURSIVE EnvFind(_, _, _)
EnvFind(env, nm, i) == IF i > Len(env) THEN 0 ELSE IF env[i].nm = nm THEN i ELSE EnvFind(env, nm, i + 1)

RECURSIVE Eval(_, _, _)
Eval(e, p, env) ==
  CASE e.k = "key"  -> VStr(p.k)
    [] e.k = "val"  -> VStr(p.v)
    [] e.k = "str"  -> VStr(e.s)
    [] e.k = "int"  -> VInt(e.n)
    [] e.k = "flt"  -> VFlt(e.n, e.d)
    [] e.k = "bool" -> VBool(e.n = 1)
    [] e.k = "name" -> LET i == EnvFind(env, e.op, 1) IN
                       IF i = 0 THEN VUnspec ELSE Eval(env[i].e, p, SubSeq(env, 1, i - 1) \o SubSeq(env, i + 1, Len(env)))
    [] e.k = "not"  -> LET x == Eval(e.a[1], p, env) IN
                       IF IsBad(x) THEN x ELSE IF x.t = "b" THEN VBool(x.n = 0) ELSE VUnspec
    [] e.k = "bin"  -> EvalBin(e.op, Eval(e.a[1], p, env), Eval(e.a[2], p, env))
    [] e.k = "list" -> VList([i \in 1..Len(e.a) |-> Eval(e.a[i], p, env)])
    [] e.k = "call" -> EvalCall(e.op, [i \in 1..Len(e.a) |-> Eval(e.a[i], p, env)], p)
    [] e.k = "idx"  -> EvalIdx(Eval(e.a[1], p, env), e.a[2])
    [] OTHER -> VUnspec

Pair(k, v) == [k |-> k, v |-> v, doc |-> VUnspec]
PairD(k, v, doc) == [k |-> k, v |-> v, doc |-> doc]

\* WHERE verdict on a pair: "t" / "f" / "u" (not evaluable or unmodelled)
Sat(e, p, env) == LET x == Eval(e, p, env) IN
                  IF x.t = "b" THEN (IF x.n = 1 THEN "t" ELSE "f") ELSE "u"

-----------------------------------------------------------------------------
(* JSON rendering (the spec renders documents; it never parses them) *)

Q == <<34>>
RECURSIVE RenderJson(_)
RenderJson(v) ==
  CASE v.t = "s" -> Q \o v.s \o Q
    [] v.t = "f" -> IF v.d = 0 THEN IntText(v.n) ELSE IF v.d = 1 THEN IntText((v.n - 1) \div 2) \o <<46, 53>> ELSE <<63>>
    [] v.t = "i" -> IntText(v.n)
    [] v.t = "b" -> IF v.n = 1 THEN <<116,114,117,101>> ELSE <<102,97,108,115,101>>
    [] v.t = "l" -> <<91>> \o Join([i \in 1..Len(v.l) |-> RenderJson(v.l[i])], <<44>>) \o <<93>>
    [] v.t = "j" -> <<123>> \o Join([i \in 1..Len(v.l) |-> Q \o v.l[i].s \o Q \o <<58>> \o RenderJson(v.l[i].l[1])], <<44>>) \o <<125>>
    [] OTHER -> <<63>>

=============================================================================
