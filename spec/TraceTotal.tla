----------------------------- MODULE TraceTotal -----------------------------
(* Trace validation for C06: each record is the caller-visible event sequence of one statement run by
   an isolated worker process of the harness (query text, store, mode, batch size), ending with the
   rendering of any returned error.  A record is accepted iff its events are a behaviour of KvSession
   that reaches a terminal state: Panic, Fatal (worker died), Timeout and Runaway have no action. *)
EXTENDS KvSession, Sequences, TLC, Json
Trace == ndJsonDeserialize("total.ndjson")
VARIABLES l, j
Case == Trace[l]
Step(e) == CASE e = "Build" -> Build [] e = "BuildOk" -> BuildOk [] e = "BuildErr" -> BuildErr [] e = "Poll" -> Poll
             [] e = "Rows" -> Rows [] e = "Eos" -> Eos [] e = "PollErr" -> PollErr [] e = "Render" -> Render [] e = "RenderOk" -> RenderOk
             [] OTHER -> FALSE
Init == l = 1 /\ j = 1 /\ phase = "idle" /\ left = MaxRows
NextCase == l' = l + 1 /\ j' = 1 /\ phase' = "idle" /\ left' = MaxRows
Next == /\ l <= Len(Trace)
        /\ IF j > Len(Case.events) THEN
               (IF phase \in Terminal THEN TRUE ELSE PrintT(<<"REJECT", Case.id, "ends-in-" \o phase>>)) /\ NextCase
           ELSE IF ENABLED Step(Case.events[j]) THEN Step(Case.events[j]) /\ j' = j + 1 /\ l' = l
           ELSE PrintT(<<"REJECT", Case.id, "no-action-for-" \o Case.events[j] \o "-in-" \o phase>>) /\ NextCase
=============================================================================
