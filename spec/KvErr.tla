-------------------------------- MODULE KvErr --------------------------------
(***************************************************************************)
(* Error positions and their rendering (C17).                              *)
(*                                                                         *)
(* CONTRACT                                                                *)
(*   PosValid(q, toks, pos, kind): pos is -1 (end of input) or a byte      *)
(*     offset inside q; for errors raised while parsing / type-checking    *)
(*     ("syntax") it is 0 or the start of one of q's tokens.               *)
(*   Rendered(q, pos, pad, out): out is three lines - a stretch of the     *)
(*     query, a caret line of c spaces followed by ^--, and the padded     *)
(*     message - such that the byte q[pos] stands in line 1 exactly above  *)
(*     the caret once the caller has printed a pad-wide prefix before      *)
(*     line 1 (README "padding"); at most 70 bytes of the query are shown, *)
(*     cut parts are marked "... " / " ...".                               *)
(* DESIGN  Render(q, pos, pad, msg): outputQueryAndErrPos + queryError of  *)
(*   errors.go.  Bug_UntrimmedPos applies the offset to the trimmed text   *)
(*   without shifting it by the leading blanks.                            *)
(***************************************************************************)
EXTENDS KvBase

CONSTANT Bug_UntrimmedPos

IsBlank(c) == c \in {32, 9, 10, 11, 12, 13}
\* white space is what Unicode calls so: besides the ASCII blanks the two-byte U+0085 / U+00A0 and the three-byte
\* U+1680, U+2000..U+200A, U+2028, U+2029, U+202F, U+205F, U+3000 (UTF-8).  Offsets are BYTE offsets throughout.
At(q, i) == IF i >= 1 /\ i <= Len(q) THEN q[i] ELSE -1
BlankLenAt(q, i) ==
  IF IsBlank(At(q, i)) THEN 1
  ELSE IF At(q, i) = 194 /\ At(q, i + 1) \in {133, 160} THEN 2
  ELSE IF At(q, i) = 226 /\ At(q, i + 1) = 128 /\ At(q, i + 2) \in (128..138) \cup {168, 169, 175} THEN 3
  ELSE IF <<At(q, i), At(q, i + 1), At(q, i + 2)>> \in {<<226, 129, 159>>, <<227, 128, 128>>, <<225, 154, 128>>} THEN 3
  ELSE 0
RECURSIVE LeadFrom(_, _)
LeadFrom(q, i) == IF i > Len(q) THEN Len(q) ELSE IF BlankLenAt(q, i) = 0 THEN i - 1 ELSE LeadFrom(q, i + BlankLenAt(q, i))
Lead(q) == LeadFrom(q, 1)
RECURSIVE TrailFrom(_, _)
TrailFrom(q, j) == IF j < 1 THEN 0
                   ELSE IF BlankLenAt(q, j) = 1 THEN TrailFrom(q, j - 1)
                   ELSE IF BlankLenAt(q, j - 1) = 2 THEN TrailFrom(q, j - 2)
                   ELSE IF BlankLenAt(q, j - 2) = 3 THEN TrailFrom(q, j - 3)
                   ELSE j
LastNB(q) == TrailFrom(q, Len(q))
Trimmed(q) == IF LastNB(q) = 0 THEN <<>> ELSE SubSeq(q, Lead(q) + 1, LastNB(q))
Spaces(n) == [i \in 1..n |-> 32]
Dots1 == <<46, 46, 46, 32>>      \* "... "
Dots2 == <<32, 46, 46, 46>>      \* " ..."
Caret == <<94, 45, 45>>          \* "^--"

\* ---- DESIGN ----
RenderLines(q, pos0, pad) ==
  LET tq == Trimmed(q)
      qlen == Len(tq)
      shifted == IF Bug_UntrimmedPos THEN pos0 ELSE Max2(0, Min2(qlen, pos0 - Lead(q)))
      pos == IF pos0 = -1 THEN qlen ELSE shifted
      long == qlen > 70
      trimLeft == long /\ pos > 35
      trim == IF trimLeft THEN pos - 35 ELSE 0
      restLen == IF ~long THEN qlen ELSE IF ~trimLeft THEN 70 ELSE Min2(70, qlen - trim)
      trimRight == long /\ (IF trimLeft THEN qlen - trim > 70 ELSE TRUE)
      shown == SubSeq(tq, trim + 1, trim + restLen)
      errPos == (pos - trim) + pad + (IF trimLeft THEN 4 ELSE 0)
  IN [line1 |-> (IF trimLeft THEN Dots1 ELSE <<>>) \o shown \o (IF trimRight THEN Dots2 ELSE <<>>),
      line2 |-> Spaces(errPos) \o Caret]

\* ---- CONTRACT ----
PosValid(q, tokStarts, pos, kind) ==
  \/ pos = -1
  \/ /\ pos >= 0 /\ pos < Len(q)
     /\ kind = "syntax" => (pos = 0 \/ pos \in tokStarts)

IsCaretLine(l) == Len(l) >= 3 /\ SubSeq(l, Len(l) - 2, Len(l)) = Caret /\ \A i \in 1..(Len(l) - 3) : l[i] = 32

\* line1 / line2 of a rendering are right for (q, pos, pad)
RenderedLines(q, pos, pad, line1, line2) ==
  /\ IsCaretLine(line2)
  /\ LET c == Len(line2) - 3
         lead == Lead(q)
         tlen == Len(Trimmed(q))
         P == IF pos = -1 THEN lead + tlen ELSE pos
     IN IF pos # -1 /\ (pos < lead \/ pos >= lead + tlen)
        THEN \* the offset falls into blanks that are not displayed: there is no character to point at
             c >= pad /\ c <= pad + Len(line1)
        ELSE \E off \in {0, 4} : \E suf \in {0, 4} :
               /\ off = 4 => (Len(line1) >= 4 /\ SubSeq(line1, 1, 4) = Dots1)
               /\ suf = 4 => (Len(line1) >= off + 4 /\ SubSeq(line1, Len(line1) - 3, Len(line1)) = Dots2)
               /\ LET n == Len(line1) - off - suf
                      a == P - (c - pad - off)               \* offset in q of the first byte shown
                  IN /\ n >= 0 /\ a >= lead /\ a + n <= lead + tlen
                     /\ SubSeq(q, a + 1, a + n) = SubSeq(line1, off + 1, off + n)
                     /\ a <= P /\ (P < a + n \/ (P = a + n /\ P = lead + tlen))     \* the caret stands under q[P]
                     /\ off = 0 => a = lead                                         \* nothing cut without a marker
                     /\ suf = 0 => a + n = lead + tlen
                     /\ n <= 70                                                    \* at most 70 bytes of the query,
                     /\ a <= Max2(lead, P - 35)                                     \* reaching 35 bytes (or to the text's
                     /\ a + n >= Min2(lead + tlen, P + 35)                          \* ends) on either side of the offset

SplitLines(out) ==
  LET nl == {i \in 1..Len(out) : out[i] = 10} IN
  IF Cardinality(nl) < 2 THEN <<>>
  ELSE LET i1 == CHOOSE i \in nl : \A j \in nl : i <= j
           i2 == CHOOSE i \in nl \ {i1} : \A j \in nl \ {i1} : i <= j
       IN <<SubSeq(out, 1, i1 - 1), SubSeq(out, i1 + 1, i2 - 1), SubSeq(out, i2 + 1, Len(out))>>

Rendered(q, pos, pad, out) ==
  LET ls == SplitLines(out) IN
  /\ ls # <<>>
  /\ RenderedLines(q, pos, pad, ls[1], ls[2])
  /\ Len(ls[3]) >= pad /\ \A i \in 1..pad : ls[3][i] = 32 /\ (Len(ls[3]) > pad => ls[3][pad + 1] # 32)
=============================================================================
