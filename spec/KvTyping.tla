------------------------------ MODULE KvTyping ------------------------------
(***************************************************************************)
(* CONTRACT: the static typing judgement of kvql statements, written from  *)
(* the README operator and function tables and the per-statement keyword   *)
(* restrictions of spec.md (C14).                                          *)
(*   types  S text, N number, B Boolean, L list, J JSON, "?" ill-typed     *)
(*   ctx = [nokey, novalue] : keywords the statement form forbids          *)
(* and the taxonomy of single static faults (Mutants) placed at every      *)
(* syntactic position.                                                     *)
(***************************************************************************)
EXTENDS KvBase

Scalar1 == {"lower", "upper", "int", "float", "str", "strlen", "is_int", "is_float", "json", "len"}
FnArity == [f \in {"lower", "upper", "int", "float", "str", "strlen", "is_int", "is_float", "json", "len", "substr", "split",
                    "l2_distance", "cosine_distance", "list", "float_list", "int_list", "flist", "ilist", "join"} |->
              CASE f = "substr" -> [min |-> 3, max |-> 3] [] f \in {"split", "l2_distance", "cosine_distance"} -> [min |-> 2, max |-> 2]
                [] f \in {"list", "float_list", "int_list", "flist", "ilist"} -> [min |-> 1, max |-> 99]
                [] f = "join" -> [min |-> 2, max |-> 99] [] OTHER -> [min |-> 1, max |-> 1]]
FnResult(f) == CASE f \in {"lower", "upper", "str", "substr", "join"} -> "S"
                 [] f \in {"int", "float", "strlen", "len", "l2_distance", "cosine_distance"} -> "N"
                 [] f \in {"is_int", "is_float"} -> "B"
                 [] f \in {"split", "list", "float_list", "int_list", "flist", "ilist"} -> "L"
                 [] f = "json" -> "J"
                 [] OTHER -> "?"
AggrArity == [f \in {"count", "sum", "avg", "min", "max", "json_arrayagg", "group_concat", "quantile"} |-> IF f \in {"group_concat", "quantile"} THEN 2 ELSE 1]
AggrResult(f) == IF f \in {"json_arrayagg", "group_concat"} THEN "S" ELSE "N"

Ctx(nokey, novalue) == [nokey |-> nokey, novalue |-> novalue]

\* TypeOf(e, ctx, env) : "S" "N" "B" "L" "J" or "?" when some rule is broken anywhere inside
RECURSIVE TypeOf(_, _, _)
TypeOf(e, ctx, env) ==
  CASE e.k = "key" -> IF ctx.nokey THEN "?" ELSE "S"
    [] e.k = "val" -> IF ctx.novalue THEN "?" ELSE "S"
    [] e.k = "str" -> "S"
    [] e.k \in {"int", "flt"} -> "N"
    [] e.k = "bool" -> "B"
    [] e.k = "name" -> LET hit == {i \in 1..Len(env) : env[i].nm = e.op} IN
                       IF hit = {} THEN "?" ELSE env[CHOOSE i \in hit : TRUE].tp
    [] e.k = "not" -> IF TypeOf(e.a[1], ctx, env) = "B" THEN "B" ELSE "?"
    [] e.k = "list" -> IF e.a # <<>> /\ \A i \in 1..Len(e.a) : TypeOf(e.a[i], ctx, env) = TypeOf(e.a[1], ctx, env) /\ TypeOf(e.a[1], ctx, env) # "?"
                       THEN "L" ELSE "?"
    [] e.k = "idx" -> LET lt == TypeOf(e.a[1], ctx, env) IN
                      IF lt = "J" /\ e.a[2].k = "str" THEN "S"
                      ELSE IF lt = "L" /\ e.a[2].k = "int" THEN "S"
                      ELSE IF lt = "S" /\ e.a[1].k = "idx" /\ e.a[2].k \in {"str", "int"} THEN "S"      \* cascaded access into a document
                      ELSE "?"
    [] e.k = "call" ->
         IF e.op \in DOMAIN AggrArity THEN
              (IF Len(e.a) = AggrArity[e.op] /\ \A i \in 1..Len(e.a) : TypeOf(e.a[i], ctx, env) # "?" THEN AggrResult(e.op) ELSE "?")
         ELSE IF e.op \notin DOMAIN FnArity THEN "?"                                                  \* unknown function
         ELSE IF Len(e.a) < FnArity[e.op].min \/ Len(e.a) > FnArity[e.op].max THEN "?"                 \* wrong argument count
         ELSE IF \E i \in 1..Len(e.a) : TypeOf(e.a[i], ctx, env) = "?" THEN "?"
         ELSE FnResult(e.op)
    [] e.k = "bin" ->
         LET lt == TypeOf(e.a[1], ctx, env)
             rt == IF e.op \in {"in", "between"} /\ e.a[2].k = "list" THEN "L" ELSE TypeOf(e.a[2], ctx, env) IN
         IF lt = "?" \/ rt = "?" THEN "?"
         ELSE IF e.op \in AndOps \cup OrOps THEN (IF lt = "B" /\ rt = "B" THEN "B" ELSE "?")
         ELSE IF e.op \in {"=", "!="} THEN (IF lt = rt /\ lt \in {"S", "N", "B"} THEN "B" ELSE "?")
         ELSE IF e.op \in {"^=", "~="} THEN (IF lt = "S" /\ rt = "S" THEN "B" ELSE "?")
         ELSE IF e.op \in {">", ">=", "<", "<="} THEN (IF lt = rt /\ lt \in {"S", "N"} THEN "B" ELSE "?")
         ELSE IF e.op = "+" THEN (IF lt = rt /\ lt \in {"S", "N"} THEN lt ELSE "?")
         ELSE IF e.op \in {"-", "*", "/"} THEN (IF lt = "N" /\ rt = "N" THEN "N" ELSE "?")
         ELSE IF e.op = "in" THEN
              (IF e.a[2].k = "list" THEN
                    (IF lt \in {"S", "N"} /\ e.a[2].a # <<>> /\ \A i \in 1..Len(e.a[2].a) : TypeOf(e.a[2].a[i], ctx, env) = lt THEN "B" ELSE "?")
               ELSE IF rt = "L" /\ lt \in {"S", "N"} THEN "B" ELSE "?")
         ELSE IF e.op = "between" THEN
              (IF e.a[2].k = "list" /\ Len(e.a[2].a) = 2 /\ lt \in {"S", "N"}
                  /\ TypeOf(e.a[2].a[1], ctx, env) = lt /\ TypeOf(e.a[2].a[2], ctx, env) = lt THEN "B" ELSE "?")
         ELSE "?"
    [] OTHER -> "?"

\* statements in the KvExec shape
\* the types of the named select fields; a field may be built on other names (in either direction, cycles are refused
\* elsewhere): iterate until the chain is resolved
RECURSIVE EnvRounds(_, _, _, _)
EnvRounds(named, ctx, env, n) ==
  IF n = 0 THEN env
  ELSE EnvRounds(named, ctx, [i \in 1..Len(named) |-> [nm |-> named[i].nm, tp |-> TypeOf(named[i].e, ctx, env)]], n - 1)
EnvTypes(stmt, ctx) ==
  LET named == SelectSeq(stmt.fields, LAMBDA f : f.nm # "") IN
  EnvRounds(named, ctx, <<>>, Len(named))

WellTypedStmt(stmt) ==
  CASE stmt.kind = "select" ->
         LET c == Ctx(FALSE, FALSE)  env == EnvTypes(stmt, c) IN
         /\ TypeOf(stmt.where, c, env) = "B"
         /\ \A i \in 1..Len(stmt.fields) : TypeOf(stmt.fields[i].e, c, env) # "?"
    [] stmt.kind = "delete" -> TypeOf(stmt.where, Ctx(FALSE, FALSE), <<>>) = "B"
    [] stmt.kind = "put" ->
         \A i \in 1..Len(stmt.pairs) : /\ TypeOf(stmt.pairs[i].k, Ctx(FALSE, TRUE), <<>>) \in {"S", "N"}
                                      /\ TypeOf(stmt.pairs[i].v, Ctx(FALSE, TRUE), <<>>) \in {"S", "N"}
    [] stmt.kind = "remove" -> \A i \in 1..Len(stmt.keys) : TypeOf(stmt.keys[i], Ctx(TRUE, TRUE), <<>>) \in {"S", "N"}
    [] OTHER -> FALSE

-----------------------------------------------------------------------------
(* Single static faults.  LocalFaults(e, want) = trees obtained from e by ONE fault at its root:
   a leaf of a type the position forbids, an unknown function, one argument too many / too few. *)

\* operands of a kind the position forbids: leaves, and calls returning that kind
WrongLeaves(want) == CASE want = "S" -> {AInt(1), ABool(TRUE), ACall("is_int", <<AStr(<<55>>)>>), ACall("split", <<AStr(<<120>>), AStr(<<44>>)>>)}
                       [] want = "N" -> {AStr(<<120>>), ABool(TRUE), ACall("is_int", <<AStr(<<55>>)>>), ACall("upper", <<AStr(<<120>>)>>)}
                       [] want = "B" -> {AStr(<<120>>), AInt(1), ACall("upper", <<AStr(<<120>>)>>), ACall("strlen", <<AStr(<<120>>)>>)}
                       [] OTHER -> {}

LocalFaults(e) ==
  IF e.k = "call" /\ e.op \in DOMAIN FnArity THEN
       {[e EXCEPT !.op = "nosuchfn"]}
       \cup (IF FnArity[e.op].max < 99 THEN {[e EXCEPT !.a = Append(e.a, e.a[Len(e.a)])]} ELSE {})
       \* one argument fewer than the least the function takes (join: the separator alone), and none at all
       \cup {[e EXCEPT !.a = SubSeq(e.a, 1, FnArity[e.op].min - 1)], [e EXCEPT !.a = <<>>]}
  ELSE {}

\* operand replacement: child i of a binary / not node replaced by a leaf its position forbids
OperandFaults(e, ctx, env) ==
  IF e.k = "not" THEN {[e EXCEPT !.a = <<x>>] : x \in WrongLeaves("B")}
  ELSE IF e.k = "bin" /\ e.op \notin {"in", "between"} THEN
       LET lt == TypeOf(e.a[1], ctx, env)  rt == TypeOf(e.a[2], ctx, env) IN
       {[e EXCEPT !.a = <<x, e.a[2]>>] : x \in WrongLeaves(lt)} \cup {[e EXCEPT !.a = <<e.a[1], x>>] : x \in WrongLeaves(rt)}
  ELSE IF e.k = "bin" /\ e.a[2].k = "list" THEN
       LET lt == TypeOf(e.a[1], ctx, env) IN
       {[e EXCEPT !.a = <<e.a[1], [e.a[2] EXCEPT !.a = [e.a[2].a EXCEPT ![j] = x]]>>] : j \in 1..Len(e.a[2].a), x \in WrongLeaves(lt)}
  ELSE {}

\* `!` (once, and stacked twice) put in front of an operand that is not Boolean: a text / number argument, operand or list item
NotFaults(e, ctx, env) ==
  IF e.k \in {"call", "bin", "list", "idx"} THEN
       UNION { IF TypeOf(e.a[i], ctx, env) \in {"S", "N"} /\ ~(e.k = "call" /\ i = 0)
               THEN { [e EXCEPT !.a = [e.a EXCEPT ![i] = ANot(e.a[i])]], [e EXCEPT !.a = [e.a EXCEPT ![i] = ANot(ANot(e.a[i]))]] }
               ELSE {} : i \in 1..Len(e.a) }
  ELSE {}

RECURSIVE Mutants(_, _, _)
Mutants(e, ctx, env) ==
  LocalFaults(e) \cup OperandFaults(e, ctx, env) \cup NotFaults(e, ctx, env)
  \cup UNION { {[e EXCEPT !.a = [e.a EXCEPT ![i] = m]] : m \in Mutants(e.a[i], ctx, env)} : i \in 1..Len(e.a) }

=============================================================================
