------------------------------ MODULE MCTokens ------------------------------
(***************************************************************************)
(* C06 / C17: every token sequence.  A statement head followed by every    *)
(* sequence of up to MaxLen tokens over the token alphabet of the language *)
(* - valid statements, every prefix of a valid statement and every way of  *)
(* going wrong within MaxLen tokens (two faults at once included).  Each    *)
(* state is one text; the harness plans and drains it in an isolated       *)
(* worker.  Nothing is assumed about which of them the language accepts:   *)
(* TraceTotal judges the outcome (rows, end of stream or a reported error; *)
(* never a crash or a hang).                                               *)
(***************************************************************************)
EXTENDS Integers, Sequences, TLC, Json
CONSTANTS MaxLen,      \* tokens after the head
          Wide         \* TRUE: the full alphabet; FALSE: the select-list / clause tokens only
Heads == << "select", "select * where", "select key,", "delete where", "put", "remove", "select key as k, count(1) where key = 'a' group by", "select * where key = 'a' order by" >>
Core == << "*", "key", "value", ",", "as", "x", "where", "(", ")", "=", "'a'", "1", "&", "!", "limit", "f(", "`q`", "'a'b" >>
More == << "in", "between", "and", "+", "[", "]", "order by", "group by", "desc", "`Q r`", "1.5", "true", "-", "^=" >>
Alphabet == IF Wide THEN Core \o More ELSE Core
VARIABLE seq
Init == seq \in { <<h>> : h \in 1..Len(Heads) }
Next == Len(seq) <= MaxLen /\ \E t \in 1..Len(Alphabet) : seq' = Append(seq, t)
RECURSIVE TextFrom(_)
TextFrom(i) == IF i > Len(seq) THEN "" ELSE " " \o Alphabet[seq[i]] \o TextFrom(i + 1)
Text == Heads[seq[1]] \o TextFrom(2)
Emit == PrintT(ToJson([kind |-> "case", q |-> Text]))
=============================================================================
