----------------------------- MODULE TraceSyntax -----------------------------
(* Trace validation for C15: the harness rendered random expression trees as token sequences (minimal,
   full or random parentheses, random letter case and spacing) and recorded what Parser.Parse made of
   the text (Expression.String()) and of its own rendering.  The token sequence is parsed here by the
   KvSyntax design parser - which MCSyntax shows to implement the documented binding strength - and
   the engine must have built the same tree (same canonical rendering) and its rendering must
   re-parse to itself. *)
EXTENDS KvSyntax, Json
Trace == ndJsonDeserialize("syntax.ndjson")
VARIABLE i
Verdict(c) ==
  LET p == Parse(c.toks) IN
  IF ~p.ok THEN "infra-renderer-produced-unparsable-tokens"
  ELSE IF c.engine = "" THEN "well-formed-expression-rejected"
  ELSE IF Canon(p.t) # c.engine THEN "tree-differs"
  ELSE IF c.again # c.engine THEN "canonical-form-not-a-fixpoint"
  ELSE "ok"
Init == i = 1
Next == /\ i <= Len(Trace) /\ i' = i + 1
        /\ LET v == Verdict(Trace[i]) IN IF v = "ok" THEN TRUE ELSE PrintT(<<"REJECT", Trace[i].id, v>>)
=============================================================================
