------------------------------ MODULE KvSession ------------------------------
(***************************************************************************)
(* The life of one statement as the caller sees it (C06, C13): the API is  *)
(* TOTAL - from every state some action is enabled until a terminal state, *)
(* every call (BuildPlan, Next/Batch, Error()) returns rows, end of stream *)
(* or an error value.  There is no action for a panic, a fatal runtime     *)
(* error, a hang or an endless row stream.                                 *)
(*   idle -Build-> building -BuildOk-> built | -BuildErr-> rejected        *)
(*   built -Poll-> polling -Rows-> built | -Eos-> done | -PollErr-> failed *)
(*   rejected / failed -Render-> rendering -RenderOk-> rendered            *)
(***************************************************************************)
EXTENDS Naturals
CONSTANT MaxRows          \* a statement over a finite store yields finitely many rows
VARIABLES phase, left
svars == <<phase, left>>

Terminal == {"done", "rendered"}
SInit == phase = "idle" /\ left \in 0..MaxRows
Build    == phase = "idle" /\ phase' = "building" /\ UNCHANGED left
BuildOk  == phase = "building" /\ phase' = "built" /\ UNCHANGED left
BuildErr == phase = "building" /\ phase' = "rejected" /\ UNCHANGED left
Poll     == phase = "built" /\ phase' = "polling" /\ UNCHANGED left
Rows     == phase = "polling" /\ left > 0 /\ phase' = "built" /\ left' = left - 1
Eos      == phase = "polling" /\ phase' = "done" /\ UNCHANGED left
PollErr  == phase = "polling" /\ phase' = "failed" /\ UNCHANGED left
Render   == phase \in {"rejected", "failed"} /\ phase' = "rendering" /\ UNCHANGED left
RenderOk == phase = "rendering" /\ phase' = "rendered" /\ UNCHANGED left
SNext == Build \/ BuildOk \/ BuildErr \/ Poll \/ Rows \/ Eos \/ PollErr \/ Render \/ RenderOk
SSpec == SInit /\ [][SNext]_svars /\ WF_svars(SNext)

Total == phase \notin Terminal => ENABLED SNext         \* never stuck before a terminal state
Terminates == <>(phase \in Terminal)
=============================================================================
