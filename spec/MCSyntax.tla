------------------------------ MODULE MCSyntax ------------------------------
(***************************************************************************)
(* C15.  (M) on every flat operator sequence up to MaxOps operators over   *)
(* the operator spellings in OpPool: the precedence-climbing design parser *)
(* builds exactly the contract tree (Tree = declarative split rule), and   *)
(* parsing the fully / minimally parenthesised renderings of that tree     *)
(* gives the same tree again (the grammar is unambiguous, the canonical    *)
(* form is a fixpoint).  (G) every sequence is emitted with Canon(Tree).   *)
(***************************************************************************)
EXTENDS KvSyntax, Json

CONSTANTS MaxOps, Reduced, EmitCases

FullPool == {"|", "or", "&", "and", "=", "!=", "^=", "~=", ">", ">=", "<", "<=", "in", "between", "+", "-", "*", "/"}
SmallPool == {"or", "&", "=", "<=", "in", "between", "+", "*"}
OpPool == IF Reduced THEN SmallPool ELSE FullPool
Names == <<"a", "b", "c", "d", "e", "f", "g">>

\* the operand that follows the n-th operator
Operand(n, op) == IF op = "between" THEN Lst(<<Leaf("id", Names[n + 1]), Leaf("num", "7")>>)
                  ELSE IF op = "in" THEN Lst(<<Leaf("str", "x"), Leaf("id", Names[n + 1])>>)
                  ELSE IF n % 3 = 2 THEN Leaf("num", IF n = 2 THEN "2.0" ELSE "10.50")       \* float literals keep their source text
                  ELSE Leaf("id", Names[n + 1])

VARIABLE ops
Init == ops = <<>>
\* IN is generated with a parenthesised list (the only right-hand side the checker accepts besides a
\* list-valued call).  A parenthesised IN list is an atom that can only be followed by a weaker or equal operator: a stronger one
\* (arithmetic applied to a list) has no typing under either reading and is left out
ListBefore == Len(ops) >= 1 /\ ops[Len(ops)] = "in"
Next == Len(ops) < MaxOps /\ \E o \in OpPool : (ListBefore => Prec(o) <= 3) /\ ops' = Append(ops, o)

Items == <<[op |-> "", x |-> Leaf("id", "a")]>> \o [n \in 1..Len(ops) |-> [op |-> ops[n], x |-> Operand(n, ops[n])]]

Check ==
  LET items == Items
      want == Tree(items)
      got == Parse(FlatToks(items))
  IN /\ got.ok /\ got.t = want                                   \* Design => Contract
     /\ Parse(FullToks(want)).ok /\ Parse(FullToks(want)).t = want      \* canonical form re-parses to the same tree
     /\ Parse(MinToks(want)).ok /\ Parse(MinToks(want)).t = want        \* and so does the minimal one
     /\ EmitCases => PrintT(ToJson([kind |-> "case", toks |-> FlatToks(items), canon |-> Canon(want)]))
=============================================================================
