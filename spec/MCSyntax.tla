------------------------------ MODULE MCSyntax ------------------------------
(***************************************************************************)
(* C15.  (M) on every flat operator sequence up to MaxOps operators over   *)
(* the operator spellings in OpPool: the precedence-climbing design parser *)
(* builds exactly the contract tree (Tree = declarative split rule), and   *)
(* parsing the fully / minimally parenthesised renderings of that tree     *)
(* gives the same tree again (the grammar is unambiguous, the canonical    *)
(* form is a fixpoint).  (G) every sequence is emitted with Canon(Tree).   *)
(***************************************************************************)
EXTENDS KvSyntax, Json

CONSTANTS MaxOps, Reduced, EmitCases

FullPool == {"|", "or", "&", "and", "=", "!=", "^=", "~=", ">", ">=", "<", "<=", "in", "between", "+", "-", "*", "/"}
SmallPool == {"or", "&", "=", "<=", "in", "between", "+", "*"}
OpPool == IF Reduced THEN SmallPool ELSE FullPool
Names == <<"a", "b", "c", "d", "e", "f", "g">>

\* the operand that follows the n-th operator
Operand(n, op) == IF op = "between" THEN Lst(<<Leaf("id", Names[n + 1]), Leaf("num", "7")>>)
                  ELSE IF op = "in" THEN (IF n % 2 = 1 THEN Lst(<<Leaf("str", "x"), Leaf("id", Names[n + 1])>>)
                                          ELSE T("call", "", <<Leaf("id", "split"), Leaf("id", Names[n + 1]), Leaf("str", ",")>>))   \* a list-valued call: an ordinary operand
                  ELSE IF n % 3 = 2 THEN Leaf("num", IF n = 2 THEN "2.0" ELSE "10.50")       \* float literals keep their source text
                  ELSE Leaf("id", Names[n + 1])

VARIABLE ops
Init == ops = <<>>
\* IN is generated with a parenthesised list (the only right-hand side the checker accepts besides a
\* list-valued call).  A parenthesised IN list is an atom that can only be followed by a weaker or equal operator: a stronger one
\* (arithmetic applied to a list) has no typing under either reading and is left out
\* (the same holds after the call form: `x in f(y) * 2` would make the right operand a binary expression, whose
\* canonical rendering `(x in (f(y) * 2))` reads as a one-element list - see DESIGN.md, C15 limits)
ListBefore == Len(ops) >= 1 /\ ops[Len(ops)] = "in"
Next == Len(ops) < MaxOps /\ \E o \in OpPool : (ListBefore => Prec(o) <= 3) /\ ops' = Append(ops, o)

Items == <<[op |-> "", x |-> Leaf("id", "a")]>> \o [n \in 1..Len(ops) |-> [op |-> ops[n], x |-> Operand(n, ops[n])]]

\* References to select-field names.  The field is declared as  key AS `name` ; names that are not plain lower-case
\* words (capitals, keywords, operator words, number-like, blanks) only read back as that name when quoted.
AliasNames == {"f1", "Total", "limit", "or", "in", "key", "1e5", "x y", "order", "AND"}
AliasTrees(al) ==
  LET R == Leaf("ref", al)  sx == Leaf("str", "x") IN
  { Bin("=", R, sx), Bin("&", Bin("!=", R, sx), Bin("^=", Leaf("key", ""), Leaf("str", "k"))), T("not", "", <<Bin("=", R, sx)>>),
    Bin("in", R, Lst(<<Leaf("str", "a"), Leaf("str", "b")>>)),      \* (the checker does not bind names inside an IN list: such statements are refused) Bin("=", T("call", "", <<Leaf("id", "upper"), R>>), Leaf("str", "A")),
    Bin("between", R, Lst(<<Leaf("str", "a"), Leaf("str", "z")>>)), Bin("=", Bin("+", R, Leaf("str", "s")), Leaf("str", "t")),
    Bin("or", Bin("=", sx, R), Bin("<", R, R)) }
AliasOK == \A al \in AliasNames : \A t \in AliasTrees(al) :
             /\ Parse(FullToks(t)).ok /\ Parse(FullToks(t)).t = t /\ Parse(MinToks(t)).ok /\ Parse(MinToks(t)).t = t
             /\ EmitCases => /\ PrintT(ToJson([kind |-> "alias", alias |-> al, bare |-> FALSE, toks |-> MinToks(t), canon |-> Canon(t)]))
                             /\ PrintT(ToJson([kind |-> "alias", alias |-> al, bare |-> FALSE, toks |-> FullToks(t), canon |-> Canon(t)]))
                             /\ (al = "f1" => PrintT(ToJson([kind |-> "alias", alias |-> al, bare |-> TRUE, toks |-> MinToks(t), canon |-> Canon(t)])))
ASSUME AliasOK

Check ==
  LET items == Items
      want == Tree(items)
      got == Parse(FlatToks(items))
  IN /\ got.ok /\ got.t = want                                   \* Design => Contract
     /\ Parse(FullToks(want)).ok /\ Parse(FullToks(want)).t = want      \* canonical form re-parses to the same tree
     /\ Parse(MinToks(want)).ok /\ Parse(MinToks(want)).t = want        \* and so does the minimal one
     /\ EmitCases => PrintT(ToJson([kind |-> "case", toks |-> FlatToks(items), canon |-> Canon(want)]))
=============================================================================
