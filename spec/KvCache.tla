------------------------------- MODULE KvCache -------------------------------
(***************************************************************************)
(* DESIGN layer for C05: the field-result caches of plan.go as the scan    *)
(* and projection nodes use them.  A statement                            *)
(*     select key, A as a, f(a) as d  where  K(key) | P(a)                 *)
(* is abstracted to rows 1..N whose alias value is the row number itself   *)
(* (so a stale value is visible), a key condition K (row pattern, decides  *)
(* without evaluating the alias: short-circuit) and a predicate P on the   *)
(* alias value.  The contract: exactly the rows i with K[i] \/ P[i], each  *)
(* with alias column i and dependent column i.                             *)
(*                                                                         *)
(* Row mode : FieldCaches (one value per alias) bound to the current row   *)
(*            by BindRow; Bug_NoBindRow = cleared once per returned row.   *)
(* Batch mode: FieldChunkKeyCaches keyed by the chunk identity (length,    *)
(*            first, last key; Bug_FirstKeyOnly = first key), the          *)
(*            concatenated FieldChunkCaches cut down to the rows that      *)
(*            passed (AdjustChunkCache over the running row index;         *)
(*            Bug_NoRunningIndex = the index is not advanced).             *)
(***************************************************************************)
EXTENDS Integers, Sequences, FiniteSets, TLC
CONSTANTS MaxN, MaxB, Bug_NoBindRow, Bug_FirstKeyOnly, Bug_NoRunningIndex

VARIABLES K, P,           \* K[i]: the key condition accepts row i;  P[v]: the alias predicate accepts value v
          B, mode, cache, \* batch size; "row" | "batch"; field cache switched on?
          pos, out, done
vars == <<K, P, B, mode, cache, pos, out, done>>
N == Len(K)
Row(i, av, dv) == <<i, av, dv>>
Expected == LET idx == SelectSeq([i \in 1..N |-> i], LAMBDA i : K[i] \/ P[i]) IN [j \in 1..Len(idx) |-> Row(idx[j], idx[j], idx[j])]

\* ---------------- row-at-a-time ----------------
\* the per-row cache: [bound |-> row it belongs to (0 = none), has |-> BOOLEAN, v |-> value]
NoCache == [bound |-> 0, has |-> FALSE, v |-> 0]
BindRow(c, i) == IF Bug_NoBindRow \/ c.bound = i THEN c ELSE [bound |-> i, has |-> FALSE, v |-> 0]
\* FieldReferenceExpr.Execute on row i: returns <<value, cache'>>
RefExec(c0, i) == LET c == BindRow(c0, i) IN
                  IF cache /\ c.has THEN <<c.v, c>> ELSE <<i, IF cache THEN [c EXCEPT !.has = TRUE, !.v = i] ELSE c>>
\* scan.Next: skip rows until the filter accepts one; the filter evaluates the alias only when K does not decide
RECURSIVE ScanNext(_, _)
ScanNext(c, i) ==
  IF i > N THEN [row |-> 0, c |-> c]
  ELSE IF K[i] THEN [row |-> i, c |-> c]
  ELSE LET r == RefExec(c, i) IN IF P[r[1]] THEN [row |-> i, c |-> r[2]] ELSE ScanNext(r[2], i + 1)
\* ProjectionPlan.Next: Clear, child.Next, then project: alias column from the cache or computed, dependent column via a reference
NextRow ==
  LET s == ScanNext(NoCache, pos + 1) IN
  IF s.row = 0 THEN [pos |-> N, rows |-> <<>>]
  ELSE LET c1 == BindRow(s.c, s.row)
           a  == IF cache /\ c1.has THEN c1.v ELSE s.row                    \* processProjection: GetFieldResult(name) else Execute
           c2 == IF cache /\ c1.has THEN c1 ELSE c1                         \* (a projected field's own result is not stored)
           d  == RefExec(c2, s.row)[1]                                      \* f(a): evaluates the reference
       IN [pos |-> s.row, rows |-> <<Row(s.row, a, d)>>]

\* ---------------- batches ----------------
ChunkKey(ch) == IF Bug_FirstKeyOnly THEN <<ch[1]>> ELSE <<Len(ch), ch[1], ch[Len(ch)]>>
\* FieldReferenceExpr.ExecuteBatch: ctx = [keys |-> set of <<key, array>>, all |-> concatenated arrays]
RefBatch(ctx, ch) ==
  LET k == ChunkKey(ch)
      hit == {e \in ctx.keys : e[1] = k}
  IN IF cache /\ hit # {} THEN <<(CHOOSE e \in hit : TRUE)[2], ctx>>
     ELSE <<ch, IF cache THEN [keys |-> ctx.keys \cup {<<k, ch>>}, all |-> ctx.all \o ch] ELSE ctx>>
\* scan.Batch: refill rounds of up to B rows until B rows passed or the rows end
RECURSIVE ScanBatch(_, _, _, _, _)
ScanBatch(ctx, i, ret, idxs, bidx) ==
  IF i > N THEN [ctx |-> ctx, pos |-> N, ret |-> ret, idxs |-> idxs]
  ELSE LET hi == IF i + B - 1 > N THEN N ELSE i + B - 1
           ch == [j \in 1..(hi - i + 1) |-> i + j - 1]
           needAlias == \E j \in 1..Len(ch) : ~K[ch[j]]            \* vector evaluation: the alias is evaluated for the whole chunk unless K decides all
           r == RefBatch(ctx, ch)                                    \* (the vector OR evaluates both sides: always)
           av == r[1]
           sel == SelectSeq([j \in 1..Len(ch) |-> j], LAMBDA j : K[ch[j]] \/ (j <= Len(av) /\ P[av[j]]))
           ret2 == ret \o [j \in 1..Len(sel) |-> ch[sel[j]]]
           idxs2 == idxs \o [j \in 1..Len(sel) |-> IF Bug_NoRunningIndex THEN bidx ELSE bidx + sel[j] - 1]
       IN IF hi = N \/ Len(ret2) >= B THEN [ctx |-> r[2], pos |-> hi, ret |-> ret2, idxs |-> idxs2]
          ELSE ScanBatch(r[2], hi + 1, ret2, idxs2, bidx + Len(ch))
Adjust(ctx, idxs) == [ctx EXCEPT !.all = SelectSeq([j \in 1..Len(ctx.all) |-> IF \E x \in 1..Len(idxs) : idxs[x] = j - 1 THEN ctx.all[j] ELSE 0], LAMBDA v : v # 0)]
NextBatch ==
  LET s == ScanBatch([keys |-> {}, all |-> <<>>], pos + 1, <<>>, <<>>, 0)
      ctx == Adjust(s.ctx, s.idxs)
      rows == s.ret
  IN IF rows = <<>> THEN [pos |-> s.pos, rows |-> <<>>]
     ELSE LET acol == IF cache /\ ctx.all # <<>> THEN ctx.all ELSE rows         \* GetChunkFieldFinalResult(name) else ExecuteBatch
              dcol == RefBatch(ctx, rows)[1]                                      \* f(a) over the filtered chunk
              val(col, j) == IF j <= Len(col) THEN col[j] ELSE -1                 \* a short column is an index panic in the engine
          IN [pos |-> s.pos, rows |-> [j \in 1..Len(rows) |-> Row(rows[j], val(acol, j), val(dcol, j))]]

Init == /\ \E n \in 0..MaxN : K \in [1..n -> BOOLEAN] /\ P \in [1..n -> BOOLEAN]
        /\ B \in 1..MaxB /\ mode \in {"row", "batch"} /\ cache \in BOOLEAN
        /\ pos = 0 /\ out = <<>> /\ done = FALSE
Poll == /\ ~done
        /\ LET r == IF mode = "row" THEN NextRow ELSE NextBatch IN
           /\ pos' = r.pos /\ out' = out \o r.rows /\ done' = (r.rows = <<>>)
        /\ UNCHANGED <<K, P, B, mode, cache>>
Spec == Init /\ [][Poll]_vars /\ WF_vars(Poll)

\* C05: every returned row has the right alias and dependent column, rows come in order, nothing is lost
PrefixOK == Len(out) <= Len(Expected) /\ out = SubSeq(Expected, 1, Len(out))
FinalOK == done => out = Expected
Terminates == <>done
=============================================================================
