------------------------------ MODULE TraceStore ------------------------------
(***************************************************************************)
(* Trace validation of storage-call logs (C11, C12, C13).  Each record is  *)
(* one statement run by the real engine over the recording reference       *)
(* storage: the store before, the complete ordered log of storage calls    *)
(* and poll boundaries, the store after, and the contract's expectation    *)
(* (selected keys / evaluated writes) computed by TLC when the case was    *)
(* generated, or recomputed here from the statement.                       *)
(*                                                                         *)
(* Every storage event is replayed through the KvStore operations, so the  *)
(* reference storage itself is checked against the contract, and the       *)
(* property invariants are evaluated after every event.                    *)
(***************************************************************************)
EXTENDS KvStore, Json

Trace == ndJsonDeserialize("store.ndjson")
VARIABLES l, j, m, cur, pos, nwrites, faulted, exp,
          re          \* the harness went on polling after the statement had failed
vars == <<l, j, m, cur, pos, nwrites, faulted, exp, re>>

Case == Trace[l]
Ev == Case.events[j]

StartMap(c) == MapOfSorted(c.before)

\* the contract's expectation for the statement of record c, recomputed here from its AST
NoExp == [selected |-> <<>>, writes |-> <<>>, evalfails |-> FALSE, modelled |-> FALSE, keys |-> <<>>, keysknown |-> FALSE]
ExpOf(c) ==
  IF ~c.hasstmt THEN NoExp
  ELSE IF c.kind = "delete" THEN
       [selected |-> DeleteKeys(c.stmt, c.before), writes |-> <<>>, evalfails |-> FALSE,
        modelled |-> Evaluable(c.before, c.stmt.where, <<>>), keys |-> <<>>, keysknown |-> FALSE]
  ELSE IF c.kind = "put" THEN
       LET st == PutStatus(c.stmt)  pv == PutVals(c.stmt) IN
       [selected |-> <<>>, writes |-> IF st = "ok" THEN [i \in 1..Len(pv) |-> [k |-> pv[i].k.s, v |-> pv[i].v.s]] ELSE <<>>,
        evalfails |-> st = "err", modelled |-> st # "unspec",
        \* the keys alone (a value the contract leaves open does not make the KEY it is stored under open)
        keys |-> [i \in 1..Len(pv) |-> pv[i].k.s], keysknown |-> \A i \in 1..Len(pv) : pv[i].k.t = "s"]
  ELSE IF c.kind = "remove" THEN
       LET st == RemoveStatus(c.stmt)  rv == RemoveVals(c.stmt) IN
       [selected |-> IF st = "ok" THEN [i \in 1..Len(rv) |-> rv[i].s] ELSE <<>>, writes |-> <<>>,
        evalfails |-> st = "err", modelled |-> st # "unspec", keys |-> <<>>, keysknown |-> FALSE]
  ELSE NoExp

Init == /\ l = 1 /\ j = 1 /\ cur = <<>> /\ pos = 1 /\ nwrites = 0 /\ faulted = FALSE /\ re = FALSE
        /\ m = IF Len(Trace) >= 1 THEN StartMap(Trace[1]) ELSE EmptyMap
        /\ exp = IF Len(Trace) >= 1 THEN ExpOf(Trace[1]) ELSE NoExp

InSeq(x, s) == \E i \in 1..Len(s) : s[i] = x

\* ---- one event: returns "" when allowed, else the name of the violated clause
Judge(c, ev) ==
  IF ev.op = "Repoll" THEN ""
  \* polled again after it failed (C12: the writes are issued once however often the plan is polled; C13): reading again is
  \* the caller's business, writing again is not
  ELSE IF re THEN (IF ev.op \in MutatingOps THEN "write-issued-when-polled-again-after-failure" ELSE "")
  ELSE IF faulted /\ ev.op \in MutatingOps \cup ReadOps THEN "storage-call-after-failed-call"                         \* C13 StopAtFault
  ELSE IF faulted /\ ev.op \in {"PollEnd", "BuildEnd"} /\ ev.err # "fault" THEN "storage-error-not-surfaced"       \* C13 ErrorSurfaces
  ELSE IF faulted /\ ev.op \in {"Poll", "Build"} THEN "polled-again-by-harness"
  ELSE IF ev.op \in MutatingOps /\ c.kind = "select" THEN "select-mutates"                                        \* C13 ReadOnlySelect
  ELSE IF ev.op \in MutatingOps /\ c.phase = "rejected" THEN "rejected-statement-mutates"                          \* C13
  ELSE IF ev.op \in {"Put", "BatchPut"} /\ c.kind \in {"delete", "remove"} THEN "delete-writes-a-pair"            \* C11
  ELSE IF ev.op \in {"Delete", "BatchDelete"} /\ c.kind = "put" THEN "put-deletes"
  ELSE IF ev.err = "fault" THEN ""
  ELSE IF ev.op = "Get" THEN
       (IF ev.ok = Has(m, ev.k) /\ (ev.ok => ev.v = Get(m, ev.k)) THEN "" ELSE "infra-reference-store-get")
  ELSE IF ev.op = "Next" THEN
       (IF ev.ok THEN (IF pos <= Len(cur) /\ cur[pos].k = ev.k /\ cur[pos].v = ev.v THEN "" ELSE "infra-reference-store-next")
        ELSE (IF pos > Len(cur) THEN "" ELSE "infra-reference-store-next-end"))
  ELSE IF ev.op \in {"Delete", "BatchDelete"} /\ c.kind = "delete" /\ exp.modelled THEN
       LET ks == IF ev.op = "Delete" THEN <<ev.k>> ELSE ev.ks IN
       \* removing a key that is not stored has no effect; removing a stored pair the contract does not select is data loss
       (IF \A i \in 1..Len(ks) : InSeq(ks[i], exp.selected) \/ ~Has(m, ks[i]) THEN "" ELSE "deletes-unselected-key")     \* C11
  ELSE IF ev.op \in {"Put", "BatchPut"} /\ c.kind = "put" THEN
       (IF nwrites >= 1 THEN "write-issued-more-than-once"                                                         \* C12
        ELSE IF exp.evalfails THEN "write-despite-failed-evaluation"
        ELSE IF ~exp.modelled THEN
             (IF ~exp.keysknown THEN ""
              ELSE IF (IF ev.op = "Put" THEN <<ev.k>> ELSE ev.ks) = exp.keys THEN "" ELSE "put-writes-under-other-keys")
        ELSE IF ev.op = "Put" THEN (IF Len(exp.writes) = 1 /\ exp.writes[1].k = ev.k /\ exp.writes[1].v = ev.v THEN "" ELSE "put-writes-other-pair")
        ELSE (IF Len(exp.writes) = Len(ev.ks) /\ \A i \in 1..Len(ev.ks) : exp.writes[i].k = ev.ks[i] /\ exp.writes[i].v = ev.vs[i]
              THEN "" ELSE "put-writes-other-pairs"))
  ELSE IF ev.op \in {"Delete", "BatchDelete"} /\ c.kind = "remove" THEN
       LET ks == IF ev.op = "Delete" THEN <<ev.k>> ELSE ev.ks IN
       (IF nwrites >= 1 THEN "write-issued-more-than-once"
        ELSE IF exp.evalfails THEN "write-despite-failed-evaluation"
        ELSE IF ~exp.modelled THEN ""
        ELSE IF ks = exp.selected THEN "" ELSE "remove-deletes-other-keys")
  ELSE ""

Effect(ev) ==
  IF ev.err = "fault" THEN [m |-> m, cur |-> cur, pos |-> pos]
  ELSE CASE ev.op = "Put" -> [m |-> MPut(m, ev.k, ev.v), cur |-> cur, pos |-> pos]
         [] ev.op = "BatchPut" -> [m |-> MBatchPut(m, ev.ks, ev.vs, 1), cur |-> cur, pos |-> pos]
         [] ev.op = "Delete" -> [m |-> MDel(m, ev.k), cur |-> cur, pos |-> pos]
         [] ev.op = "BatchDelete" -> [m |-> MBatchDel(m, ev.ks, 1), cur |-> cur, pos |-> pos]
         [] ev.op = "Cursor" -> [m |-> m, cur |-> Snapshot(m), pos |-> 1]
         [] ev.op = "Seek" -> [m |-> m, cur |-> cur, pos |-> SeekPos(cur, ev.k)]
         [] ev.op = "Next" -> [m |-> m, cur |-> cur, pos |-> IF ev.ok THEN pos + 1 ELSE pos]
         [] OTHER -> [m |-> m, cur |-> cur, pos |-> pos]

\* ---- end of a record: the whole-statement clauses
Final(c) ==
  IF Snapshot(m) # [i \in 1..Len(c.after) |-> [k |-> c.after[i].k, v |-> c.after[i].v]] THEN "infra-reference-store-final-state"
  ELSE IF \E i \in 1..Len(c.before) : c.before[i].doc.t # "unspec" /\ RenderJson(c.before[i].doc) # c.before[i].v THEN "infra-doc-annotation"
  ELSE IF \E i \in 1..Len(c.observed) : ~(c.observed[i].found = Has(m, c.observed[i].k) /\ (c.observed[i].found => c.observed[i].v = Get(m, c.observed[i].k)))
       THEN "following-select-does-not-observe-the-write"
  ELSE IF c.faultat # 0 /\ faulted /\ c.phase \notin {"failed", "rejected"} THEN "storage-error-not-surfaced"
  ELSE IF c.faultat # 0 /\ faulted /\ c.errkind # "fault" THEN "storage-error-replaced-by-another-error"
  ELSE IF faulted \/ ~exp.modelled THEN ""
  ELSE IF c.kind = "delete" /\ c.phase = "done" THEN
       (IF Snapshot(m) = Snapshot(MBatchDel(StartMap(c), exp.selected, 1)) THEN "" ELSE "delete-leaves-wrong-store")      \* C11
  ELSE IF c.kind = "put" THEN
       (IF exp.evalfails THEN (IF nwrites = 0 /\ c.phase \in {"failed", "rejected"} THEN "" ELSE "failed-evaluation-not-all-or-nothing")
        ELSE IF c.phase # "done" THEN "put-fails"
        ELSE IF nwrites # (IF Len(exp.writes) = 0 THEN 0 ELSE 1) THEN "write-not-issued-exactly-once"
        ELSE IF Snapshot(m) = Snapshot(MBatchPut(StartMap(c), [i \in 1..Len(exp.writes) |-> exp.writes[i].k], [i \in 1..Len(exp.writes) |-> exp.writes[i].v], 1))
             THEN "" ELSE "put-leaves-wrong-store")                                                                     \* C12
  ELSE IF c.kind = "remove" THEN
       (IF exp.evalfails THEN (IF nwrites = 0 /\ c.phase \in {"failed", "rejected"} THEN "" ELSE "failed-evaluation-not-all-or-nothing")
        ELSE IF c.phase # "done" THEN "remove-fails"
        ELSE IF nwrites # (IF Len(exp.selected) = 0 THEN 0 ELSE 1) THEN "write-not-issued-exactly-once"
        ELSE IF Snapshot(m) = Snapshot(MBatchDel(StartMap(c), exp.selected, 1)) THEN "" ELSE "remove-leaves-wrong-store")
  ELSE IF c.kind = "select" THEN (IF Snapshot(m) = Snapshot(StartMap(c)) THEN "" ELSE "select-changes-store")
  ELSE ""

NextCase == /\ l' = l + 1 /\ j' = 1 /\ cur' = <<>> /\ pos' = 1 /\ nwrites' = 0 /\ faulted' = FALSE /\ re' = FALSE
            /\ m' = IF l + 1 <= Len(Trace) THEN StartMap(Trace[l + 1]) ELSE EmptyMap
            /\ exp' = IF l + 1 <= Len(Trace) THEN ExpOf(Trace[l + 1]) ELSE NoExp

Next == /\ l <= Len(Trace)
        /\ IF j > Len(Case.events) THEN
               LET v == Final(Case) IN (IF v = "" THEN TRUE ELSE PrintT(<<"REJECT", Case.id, v, j>>)) /\ NextCase
           ELSE LET v == Judge(Case, Ev) IN
                IF v = "" THEN
                     LET e == Effect(Ev) IN
                     /\ m' = e.m /\ cur' = e.cur /\ pos' = e.pos
                     /\ nwrites' = nwrites + (IF Ev.op \in MutatingOps THEN 1 ELSE 0)
                     /\ faulted' = (faulted \/ Ev.err = "fault")
                     /\ re' = (re \/ Ev.op = "Repoll")
                     /\ j' = j + 1 /\ l' = l /\ exp' = exp
                ELSE PrintT(<<"REJECT", Case.id, v, j>>) /\ NextCase
=============================================================================
