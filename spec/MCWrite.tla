------------------------------- MODULE MCWrite -------------------------------
(***************************************************************************)
(* Statement spaces for the write / storage-traffic properties:            *)
(*   Mode = "put"     C12: PUT pair lists and REMOVE key lists over pools  *)
(*                    with duplicates, key-referencing values and failing  *)
(*                    expressions x prior stores x polling patterns        *)
(*   Mode = "history" C11/C12: the state graph of a pool of statements     *)
(*                    over a 4-key store; every edge is emitted            *)
(*   Mode = "matrix"  C13: one statement per plan node / storage operation *)
(*                    x stores (the harness adds every fault position)     *)
(* The contract invariants checked here guard the oracle itself.           *)
(***************************************************************************)
EXTENDS KvStore, Json

CONSTANTS Mode, MaxPairs

B2(s) == s      \* byte strings are written as tuples below
k1 == <<107, 49>>  k2 == <<107, 50>>  k3 == <<107, 51>>  k4 == <<107, 52>>  k5 == <<107, 53>>
va == <<97>>  vb == <<98>>

NoLim == [has |-> FALSE, s |-> 0, n |-> 0]
Lim(s, n) == [has |-> TRUE, s |-> s, n |-> n]
Stmt(kind, fields, where, order, group, lim, pairs, keys) ==
  [kind |-> kind, fields |-> fields, where |-> where, order |-> order, group |-> group, lim |-> lim, pairs |-> pairs, keys |-> keys]
Select(fields, where, order, group, lim) == Stmt("select", fields, where, order, group, lim, <<>>, <<>>)
Delete(where, lim) == Stmt("delete", <<>>, where, <<>>, <<>>, lim, <<>>, <<>>)
Put(pairs) == Stmt("put", <<>>, ABool(TRUE), <<>>, <<>>, NoLim, pairs, <<>>)
Remove(keys) == Stmt("remove", <<>>, ABool(TRUE), <<>>, <<>>, NoLim, <<>>, keys)
F(e, nm) == [e |-> e, nm |-> nm]
PP(k, v) == [k |-> k, v |-> v]
SP(k, v) == [k |-> k, v |-> v, doc |-> VUnspec]

DivZero == ABin("/", AInt(1), ABin("-", AInt(1), AInt(1)))
DivFZero == ABin("/", AInt(1), ABin("-", AFlt(1, 1), AFlt(1, 1)))                    \* an integer over a computed float zero
DivFZero2 == ABin("/", AInt(3), ACall("float", <<AStr(<<48>>)>>))
\* a failing evaluation as the RIGHT operand of a concatenation / of arithmetic
ConcFail == ABin("+", AStr(<<110, 61>>), ACall("str", <<ABin("/", AInt(10), ACall("strlen", <<AStr(<<>>)>>))>>))
MathFail == ABin("-", AInt(7), ABin("/", AInt(1), ACall("strlen", <<AStr(<<>>)>>)))
\* a failing evaluation inside the second / third argument of substr; a bare len() (a plain integer) as key or value
SubFail2 == ACall("substr", <<AStr(<<97, 98, 99, 100>>), ABin("/", AInt(6), ABin("-", AInt(2), AInt(2))), AInt(3)>>)
SubFail3 == ACall("substr", <<AStr(<<97, 98, 99, 100>>), AInt(1), ABin("/", AInt(6), ACall("strlen", <<AStr(<<>>)>>))>>)
LenVal == ACall("len", <<ACall("split", <<AStr(<<97, 44, 98, 44, 99>>), AStr(<<44>>)>>)>>)
KeyOnKey == ABin("+", AKey, AStr(<<98>>))                                             \* `key` inside a KEY expression is the empty key
BadDist == ACall("l2_distance", <<ACall("list", <<AInt(1), AInt(2)>>), ACall("list", <<AInt(1)>>)>>)

KeyPool == { AStr(k1), AStr(k2), AInt(7), ABin("+", AStr(<<107>>), AStr(<<51>>)), ACall("upper", <<AStr(k4)>>),
             ACall("lower", <<AStr(<<75, 49>>)>>), DivZero, KeyOnKey, ConcFail, AStr(<<97, 98, 255, 99>>), SubFail2, LenVal }
ValPool == { AStr(<<>>), AStr(<<118, 49>>), AInt(5), ABin("+", AStr(<<118, 95>>), AKey), ACall("upper", <<ABin("+", AStr(<<118>>), AKey)>>),
             ACall("str", <<ACall("strlen", <<AKey>>)>>), BadDist, AFlt(3, 1), DivFZero, DivFZero2, ConcFail, MathFail, SubFail2, SubFail3, LenVal }
SmallKeys == { AStr(k1), ACall("lower", <<AStr(<<75, 49>>)>>), AStr(k2), KeyOnKey }
SmallVals == { AStr(<<>>), AStr(<<118, 49>>), ABin("+", AStr(<<118, 95>>), AKey), BadDist, DivFZero, ConcFail, ACall("upper", <<AKey>>) }

\* fourteen pairs over seven keys: every key written twice, the later value must win whatever the order of the keys
KN(i) == <<107, 48 + i>>
LongPairs(rot) == [i \in 1..14 |-> PP(AStr(KN(((i * rot) % 7) + 1)), AStr(<<118>> \o (IF i < 10 THEN <<48 + i>> ELSE <<49, 48 + (i - 10)>>)))]
\* join around empty parts: the separator stands between every two neighbours, also next to an empty one
JSl(x, y) == ACall("join", <<AStr(<<47>>), x, y>>)
JDash3(x, y, z) == ACall("join", <<AStr(<<45>>), x, y, z>>)
JoinPairs == { <<PP(JSl(AStr(<<>>), AStr(k1)), JDash3(AStr(<<>>), AStr(<<>>), AKey))>>,
               <<PP(AStr(k1), JDash3(AKey, AStr(<<>>), AStr(<<>>))), PP(JSl(AStr(<<>>), AStr(k2)), AStr(<<118, 49>>))>>,
               <<PP(JSl(AStr(k1), AStr(<<>>)), JSl(AStr(<<>>), AStr(<<>>))), PP(JDash3(AStr(<<>>), AStr(k2), AStr(<<>>)), JSl(AKey, AInt(1)))>> }
JoinKeys == { <<JSl(AStr(<<>>), AStr(k1))>>, <<JSl(AStr(<<>>), AStr(k1)), JSl(AStr(k2), AStr(<<>>))>>, <<JDash3(AStr(<<>>), AStr(<<>>), AStr(k1)), AStr(k2)>> }
PairSeqs == JoinPairs \cup { LongPairs(r) : r \in {1, 2, 3, 5} } \cup { <<PP(k, v)>> : k \in KeyPool, v \in ValPool }
            \cup (IF MaxPairs >= 2 THEN { <<PP(a, b), PP(c, d)>> : a \in KeyPool, b \in ValPool, c \in KeyPool, d \in SmallVals } ELSE {})
            \cup (IF MaxPairs >= 3 THEN { <<PP(a, b), PP(c, d), PP(e, f)>> : a \in SmallKeys, b \in SmallVals, c \in SmallKeys, d \in SmallVals, e \in SmallKeys, f \in SmallVals } ELSE {})
\* (REMOVE refuses `key`: its key expressions are taken from the pools without KeyOnKey)
RKeyPool == KeyPool \ {KeyOnKey}
RSmallKeys == SmallKeys \ {KeyOnKey}
KeySeqs == JoinKeys \cup { <<a>> : a \in RKeyPool } \cup { <<a, b>> : a \in RKeyPool, b \in RKeyPool }
           \cup (IF MaxPairs >= 3 THEN { <<a, b, c>> : a \in RSmallKeys, b \in RKeyPool, c \in RSmallKeys } ELSE {})

PriorStores == { <<>>, <<SP(k1, <<111>>), SP(k3, <<111>>)>>, <<SP(<<55>>, <<111>>), SP(<<75, 52>>, <<111>>), SP(k1, <<111>>), SP(k2, <<111>>)>> }
PollPatterns == { [polls |-> "", after |-> 0], [polls |-> "rb", after |-> 2], [polls |-> "br", after |-> 3], [polls |-> "b", after |-> 1] }

-----------------------------------------------------------------------------
(* history model: statements over keys k1..k4 with values a / b *)

HKeys == {k1, k2, k3, k4}
HPool == {
  Put(<<PP(AStr(k1), AStr(va))>>),
  Put(<<PP(AStr(k2), AStr(vb)), PP(AStr(k3), AStr(va))>>),
  Put(<<PP(AStr(k4), ABin("+", AStr(vb), AStr(<<>>))), PP(AStr(k4), AStr(va))>>),
  Put(<<PP(AStr(k1), AStr(vb)), PP(AStr(k2), AStr(va)), PP(AStr(k1), AStr(va))>>),
  Remove(<<AStr(k1)>>),
  Remove(<<AStr(k2), AStr(k3)>>),
  Delete(ABin("^=", AKey, AStr(<<107>>)), Lim(0, 1)),
  Delete(ABin("^=", AKey, AStr(<<107>>)), Lim(1, 2)),
  Delete(ABin(">", AKey, AStr(k2)), NoLim),
  Delete(AIn(AKey, <<AStr(k1), AStr(k4)>>), NoLim),
  Delete(ABin("=", AVal, AStr(va)), NoLim),
  Delete(ABin("&", ABin("=", AVal, AStr(vb)), ABin("<=", AKey, AStr(k3))), NoLim),
  Delete(ABin("|", ABin("=", AKey, AStr(k2)), ABin("=", AKey, AStr(k3))), NoLim)
}

-----------------------------------------------------------------------------
(* C13 matrix *)

Num(n) == <<48 + n>>
MStore(n) == [i \in 1..n |-> SP(<<107, 48 + i>>, IF i % 2 = 1 THEN Num(i) ELSE <<118, 49>>)]
Call1(f, x) == ACall(f, <<x>>)
BigStore == [i \in 1..70 |-> SP(<<107>> \o (IF i < 10 THEN <<48>> ELSE <<>>) \o IntText(i), IF i % 3 = 0 THEN <<118, 49>> ELSE Num(i % 10))]
MStores == IF MaxPairs >= 3 THEN {MStore(0), MStore(1), MStore(3), MStore(7), BigStore} ELSE {MStore(0), MStore(3), MStore(7)}
KPre == ABin("^=", AKey, AStr(<<107>>))
MatrixStmts == {
  Select(<<>>, KPre, <<>>, <<>>, NoLim),
  Select(<<>>, ABin("&", ABin(">", AKey, AStr(k1)), ABin("<", AKey, AStr(k5))), <<>>, <<>>, NoLim),
  Select(<<>>, AIn(AKey, <<AStr(k1), AStr(k3), AStr(<<122, 122>>)>>), <<>>, <<>>, NoLim),
  Select(<<>>, ABin("=", AVal, AStr(<<118, 49>>)), <<>>, <<>>, NoLim),
  Select(<<>>, ABool(FALSE), <<>>, <<>>, NoLim),
  Select(<<>>, ABin("<", AKey, AStr(k3)), <<>>, <<>>, NoLim),
  Select(<<>>, ABin("<=", AKey, AStr(k5)), <<>>, <<>>, Lim(0, 2)),
  Select(<<>>, ABin(">", AKey, AStr(k2)), <<>>, <<>>, NoLim),
  Select(<<>>, ABin(">=", AStr(k3), AKey), <<>>, <<>>, NoLim),
  Select(<<>>, ABetween(AKey, AStr(k2), AStr(k5)), <<>>, <<>>, NoLim),
  Select(<<>>, ABin("|", ABin("^=", AKey, AStr(k1)), ABin("=", AKey, AStr(k3))), <<>>, <<>>, NoLim),
  Select(<<>>, ABin("&", ABin("^=", AKey, AStr(<<107>>)), ABin("~=", AVal, AStr(<<94, 118>>))), <<>>, <<>>, NoLim),
  Select(<<>>, ABin("=", AKey, AStr(k2)), <<>>, <<>>, NoLim),
  Select(<<F(AKey, ""), F(Call1("strlen", AVal), "n")>>, ABin("&", ABin("<", AKey, AStr(k5)), ABin(">", AName("n"), AInt(0))), <<[f |-> 2, desc |-> FALSE]>>, <<>>, Lim(1, 2)),
  Select(<<F(AVal, "g"), F(Call1("count", AInt(1)), "c")>>, ABin("<", AKey, AStr(k5)), <<[f |-> 2, desc |-> TRUE]>>, <<1>>, NoLim),
  Delete(ABin("<", AKey, AStr(k3)), NoLim),
  Delete(ABin(">", AKey, AStr(k2)), Lim(0, 2)),
  Delete(ABin("<=", AKey, AStr(k5)), Lim(1, 1)),
  Delete(ABetween(AKey, AStr(k1), AStr(k3)), NoLim),
  Delete(ABool(FALSE), NoLim),
  Select(<<F(AKey, ""), F(ACall("upper", <<AVal>>), "u")>>, ABin("^=", AName("u"), AStr(<<86>>)), <<>>, <<>>, NoLim),
  Select(<<>>, KPre, <<[f |-> 2, desc |-> TRUE]>>, <<>>, NoLim),
  Select(<<>>, KPre, <<>>, <<>>, Lim(1, 3)),
  Select(<<>>, KPre, <<[f |-> 2, desc |-> FALSE]>>, <<>>, Lim(1, 2)),
  Select(<<F(ACall("count", <<AInt(1)>>), ""), F(ACall("sum", <<ACall("int", <<AVal>>)>>), "")>>, KPre, <<>>, <<>>, NoLim),
  Select(<<F(ACall("is_int", <<AVal>>), "g"), F(ACall("count", <<AInt(1)>>), "c")>>, KPre, <<>>, <<1>>, Lim(0, 1)),
  Delete(KPre, Lim(1, 3)),
  Delete(ABin("=", AVal, AStr(<<118, 49>>)), NoLim),
  Delete(AIn(AKey, <<AStr(k1), AStr(k2)>>), NoLim),
  Delete(ABin("=", AKey, AStr(k1)), NoLim),
  Delete(ABin("&", ABin("=", AKey, AStr(k1)), ABin("=", AVal, AStr(<<49>>))), NoLim),
  Put(<<PP(AStr(k1), AStr(va))>>),
  Put(<<PP(AStr(k1), AStr(va)), PP(AStr(<<122>>), AStr(vb))>>),
  Remove(<<AStr(k1)>>),
  Remove(<<AStr(k1), AStr(k2)>>),
  \* more keys / pairs than the smallest batch sizes: a multi-call write must stop at the first failed call
  Remove(<<AStr(k1), AStr(k2), AStr(k3)>>),
  Remove(<<AStr(k5), AStr(k1), AStr(k2), AStr(k3), AStr(<<122>>)>>),
  Put(<<PP(AStr(k1), AStr(va)), PP(AStr(<<122>>), AStr(vb)), PP(AStr(k2), AStr(va))>>),
  Delete(AIn(AKey, <<AStr(k1), AStr(k2), AStr(k3), AStr(k5)>>), NoLim),
  Delete(ABin("&", AIn(AKey, <<AStr(k1), AStr(k2), AStr(k3)>>), ABin("!=", AVal, AStr(<<120>>))), NoLim),
  \* point reads that include the empty key; a PUT that repeats a key (several single writes in some implementations)
  Select(<<>>, AIn(AKey, <<AStr(<<>>), AStr(k1), AStr(k3)>>), <<>>, <<>>, NoLim),
  Select(<<>>, ABin("<=", AKey, AStr(<<>>)), <<>>, <<>>, NoLim),
  Delete(ABin("&", AIn(AKey, <<AStr(<<>>), AStr(k2)>>), ABin("!=", AVal, AStr(<<120>>))), NoLim),
  Put(<<PP(AStr(k1), AStr(va)), PP(AStr(k1), AStr(vb)), PP(AStr(k2), AStr(va)), PP(AStr(k1), AStr(va))>>)
}
RejectedTexts == { "select * where", "select * where key = 1", "put ('a')", "delete where key ^= 1", "remove key",
                   "select nosuch(key) where key = 'k1'", "delete where 1 = 1 | upper(key, 'x') = 'K1'", "select * where 1 = 1 | nosuchfn(key) = 'a'", "delete where 1 > 2 & strlen(key, key) = 2", "put ('k9', value)", "delete where key = 'k1' limit", "selec * where key = 'k1'" }

-----------------------------------------------------------------------------
VARIABLES st, store, pat, raw, stage
vars == <<st, store, pat, raw, stage>>
NoStmt == Select(<<>>, ABool(TRUE), <<>>, <<>>, NoLim)
NoPat == [polls |-> "", after |-> 0]

Init ==
  \/ /\ Mode = "put" /\ stage = 1 /\ raw = ""
     /\ st \in {Put(ps) : ps \in PairSeqs} \cup {Remove(ks) : ks \in KeySeqs}
     /\ store \in PriorStores /\ pat \in PollPatterns
  \/ /\ Mode = "history" /\ stage = 0 /\ raw = "" /\ pat = NoPat /\ st = NoStmt
     /\ store = <<>>
  \/ /\ Mode = "matrix" /\ stage = 1 /\ pat = NoPat
     /\ store \in MStores
     /\ \/ raw = "" /\ st \in MatrixStmts
        \/ st = NoStmt /\ raw \in RejectedTexts

\* history: `store` is the PRE-state of statement `st`; the successor holds the post-state as its pre-state
Next == /\ Mode = "history"
        /\ \E s2 \in HPool :
             /\ st' = s2
             /\ store' = IF stage = 0 THEN store ELSE ApplyStmt(st, store)
             /\ stage' = 1
        /\ UNCHANGED <<pat, raw>>

\* contract sanity (guards the oracle): PUT/REMOVE effects
OracleOK ==
  stage = 1 =>
    /\ SortedStore(store)
    /\ st.kind = "put" /\ PutStatus(st) = "ok" =>
         LET post == ApplyStmt(st, store) pv == PutVals(st) IN
         /\ \A i \in 1..Len(pv) : \E j \in 1..Len(post) : post[j].k = pv[i].k.s
         /\ \A j \in 1..Len(post) : (\A i \in 1..Len(pv) : pv[i].k.s # post[j].k) => \E h \in 1..Len(store) : store[h] = post[j]
    /\ st.kind = "delete" => \A i \in 1..Len(DeleteKeys(st, store)) : \E j \in 1..Len(store) : store[j].k = DeleteKeys(st, store)[i]

Emit == stage = 1 =>
   PrintT(ToJson([kind |-> "case",
                  id |-> ToString(TLCGet("distinct")) \o "-" \o Mode,
                  stmt |-> st, store |-> store, polls |-> pat.polls, after |-> pat.after, raw |-> raw]))
=============================================================================
