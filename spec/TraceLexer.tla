----------------------------- MODULE TraceLexer -----------------------------
(* Trace validation for C16: recorded Lexer.Split outputs of the real engine on texts the harness
   generated, judged by the KvLexer contract: the tokens must be exactly Tokenize(text) (kind where
   the contract fixes one, text, offset), which entails true offsets, byte-exact literals, single
   two-character operators and - because Tokenize is spacing-irrelevant (checked in MCLexer) - the
   same kinds and texts under any optional spacing. *)
EXTENDS KvLexer, Json
Trace == ndJsonDeserialize("lexer.ndjson")
VARIABLE i
SameTok(a, b) == a.pos = b.pos /\ a.data = b.data /\ (a.tp = b.tp \/ a.tp = "?" \/ b.tp = "?")
Verdict(c) ==
  LET want == Tokenize(c.text) IN
  IF c.panic # "" THEN "lexer-panic"
  ELSE IF ~Specified(want) THEN "unmodelled"
  ELSE IF Len(want) = Len(c.toks) /\ \A x \in 1..Len(want) : SameTok(want[x], c.toks[x]) THEN "ok"
  ELSE "tokens-differ"
Init == i = 1
Next == /\ i <= Len(Trace) /\ i' = i + 1
        /\ LET v == Verdict(Trace[i]) IN
           IF v = "ok" THEN TRUE ELSE IF v = "unmodelled" THEN PrintT(<<"UNMODELLED", Trace[i].id>>) ELSE PrintT(<<"REJECT", Trace[i].id, v>>)
=============================================================================
