----------------------------- MODULE TraceRegion -----------------------------
(***************************************************************************)
(* Trace validation for C02: every record is one execution of the real     *)
(* engine - the scan node it built (exported fields), the keys its own     *)
(* pair-by-pair filter accepts, the keys it returned in both iteration     *)
(* modes and, for the DELETE twin, the store before and after.             *)
(* A record is accepted iff it is allowed by the KvRegion contract.        *)
(***************************************************************************)
EXTENDS KvRegion, Json

Trace == ndJsonDeserialize("region.ndjson")
VARIABLE i

PlanST(p) ==
  CASE p.scan = "EMPTY"  -> EMPTY
    [] p.scan = "MGET"   -> MGET(p.keys)
    [] p.scan = "PREFIX" -> PREFIX(p.lo)
    [] p.scan = "RANGE"  -> RANGE(IF p.haslo THEN p.lo ELSE NIL, IF p.hashi THEN p.hi ELSE NIL)
    [] p.scan = "FULL"   -> FULL
    [] OTHER -> ST("UNKNOWN", <<>>)

Covers(c)  == \A j \in 1..Len(c.acc) : InRegion(c.acc[j], PlanST(c.plan))
Returns(c) == c.rows = c.acc /\ c.rowsb = c.acc
Deletes(c) == c.hasdel => c.after = SelectSeq(c.before, LAMBDA k : \A j \in 1..Len(c.acc) : c.acc[j] # k)

Verdict(c) == IF PlanST(c.plan).tp = "UNKNOWN" THEN "infra-unknown-scan-node"
              ELSE IF ~Covers(c) THEN "region-loses-accepted-key"
              ELSE IF ~Returns(c) THEN "rows-differ-from-filter"
              ELSE IF ~Deletes(c) THEN "delete-differs-from-filter"
              ELSE "ok"

Init == i = 1
Next == /\ i <= Len(Trace)
        /\ i' = i + 1
        /\ LET v == Verdict(Trace[i]) IN IF v = "ok" THEN TRUE ELSE PrintT(<<"REJECT", Trace[i].id, v>>)
Accepted == TLCGet("stats").diameter = Len(Trace) + 1
=============================================================================
