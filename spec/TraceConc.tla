------------------------------ MODULE TraceConc ------------------------------
(***************************************************************************)
(* Trace validation for C19.  A record is one concurrent run of the real   *)
(* engine: the initial store, one statement per goroutine, the GLOBAL      *)
(* order of all storage calls (logged under the storage mutex, each event  *)
(* tagged with its goroutine) and every goroutine's result.                *)
(* The log is replayed through the KvStore operations with one cursor per  *)
(* session, so it must be a behaviour of the thread-safe storage contract; *)
(* then every statement's result must be what the KvExec contract gives    *)
(* for that statement ALONE on the initial store, and the final store must *)
(* be the initial store with the writers' effects applied (in any order -  *)
(* they are independent).                                                  *)
(***************************************************************************)
EXTENDS KvStore, Json

Trace == ndJsonDeserialize("conc.ndjson")
VARIABLES l, j, m, curs, poss
vars == <<l, j, m, curs, poss>>
Case == Trace[l]
Ev == Case.events[j]
Procs == 0..31
NoCurs == [p \in Procs |-> <<>>]
NoPoss == [p \in Procs |-> 1]
Init == /\ l = 1 /\ j = 1 /\ curs = NoCurs /\ poss = NoPoss
        /\ m = IF Len(Trace) >= 1 THEN MapOfSorted(Trace[1].store) ELSE EmptyMap

Judge(ev) ==
  IF ev.op = "Get" THEN (IF ev.ok = Has(m, ev.k) /\ (ev.ok => ev.v = Get(m, ev.k)) THEN "" ELSE "get-not-linearizable")
  ELSE IF ev.op = "Next" THEN
       LET c == curs[ev.p]  ps == poss[ev.p] IN
       (IF ev.ok THEN (IF ps <= Len(c) /\ c[ps].k = ev.k /\ c[ps].v = ev.v THEN "" ELSE "cursor-not-a-snapshot")
        ELSE (IF ps > Len(c) THEN "" ELSE "cursor-ends-early"))
  ELSE ""
RECURSIVE FoldWriters(_, _, _)
FoldWriters(c, s, p) == IF p > Len(c.stmts) THEN s
                        ELSE FoldWriters(c, IF c.stmts[p].kind = "select" THEN s ELSE ApplyStmt(c.stmts[p], s), p + 1)
Final(c) ==
  LET bad == {p \in 1..Len(c.stmts) :
                \* the statement run alone (recorded beforehand, sequentially): same outcome, same rows, and the error text the
                \* caller prints after binding ITS query is the one it prints alone (no other statement's text or caret in it)
                \/ (c.results[p].hasalone /\ (\/ c.results[p].phase # c.results[p].alonephase
                                               \/ c.results[p].rendered # c.results[p].alonerendered
                                               \/ c.results[p].rows # c.results[p].alonerows))      \* (writers report their counts)
                \/ (~c.results[p].hasalone /\ c.results[p].phase # "done")
                \* and, where the contract models the statement, what the contract gives for it alone on the initial store
                \/ (c.stmts[p].kind = "select" /\ c.results[p].phase = "done" /\ LET base == BaseRows(c.stmts[p], c.store) IN
                       ModelledB(c.stmts[p], c.store, base) /\ ~SelectOKB(c.stmts[p], base, c.results[p].rows))}
      want == FoldWriters(c, c.store, 1)
  IN IF c.sched # <<>> /\ [x \in 1..Len(c.events) |-> c.events[x].p] # c.sched THEN "drift-call-order-differs-from-the-model-schedule"
     ELSE IF bad # {} THEN "statement-result-differs-from-running-alone"
     ELSE IF m # MapOfSorted(want) THEN "final-store-differs-from-sequential"
     ELSE ""
NextCase == /\ l' = l + 1 /\ j' = 1 /\ curs' = NoCurs /\ poss' = NoPoss
            /\ m' = IF l + 1 <= Len(Trace) THEN MapOfSorted(Trace[l + 1].store) ELSE EmptyMap
Next == /\ l <= Len(Trace)
        /\ IF j > Len(Case.events) THEN
               LET v == Final(Case) IN (IF v = "" THEN TRUE ELSE PrintT(<<"REJECT", Case.id, v>>)) /\ NextCase
           ELSE LET v == Judge(Ev) IN
                IF v # "" THEN PrintT(<<"REJECT", Case.id, v, j>>) /\ NextCase
                ELSE /\ j' = j + 1 /\ l' = l
                     /\ m' = CASE Ev.op = "Put" -> MPut(m, Ev.k, Ev.v) [] Ev.op = "BatchPut" -> MBatchPut(m, Ev.ks, Ev.vs, 1)
                               [] Ev.op = "Delete" -> MDel(m, Ev.k) [] Ev.op = "BatchDelete" -> MBatchDel(m, Ev.ks, 1) [] OTHER -> m
                     /\ curs' = IF Ev.op = "Cursor" THEN [curs EXCEPT ![Ev.p] = m] ELSE curs
                     /\ poss' = CASE Ev.op = "Cursor" -> [poss EXCEPT ![Ev.p] = 1]
                                  [] Ev.op = "Seek" -> [poss EXCEPT ![Ev.p] = SeekPos(curs[Ev.p], Ev.k)]
                                  [] Ev.op = "Next" /\ Ev.ok -> [poss EXCEPT ![Ev.p] = @ + 1]
                                  [] OTHER -> poss
=============================================================================
