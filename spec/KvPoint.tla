------------------------------- MODULE KvPoint -------------------------------
(***************************************************************************)
(* DESIGN layer for the point-read plan (MultiGetPlan of scan_plan.go),    *)
(* used by C03 (row = batch), C01/C02 (every stored, satisfying key, in    *)
(* key order) and C05 (chunk cache positions).                             *)
(*                                                                         *)
(* A statement  select key as k, value as v where key in (k1..kn) & P(v)   *)
(* is abstracted to the status of each listed key, in key order:           *)
(*    "absent"  not stored (Get returns nil)                               *)
(*    "reject"  stored, fails the residual filter                          *)
(*    "pass"    stored, passes                                             *)
(*    "empty"   stored with an EMPTY value, passes                         *)
(* Contract: the rows are the listed keys with status pass/empty, in key   *)
(* order, each with its own alias column; in both modes, at every batch    *)
(* size.                                                                   *)
(*                                                                         *)
(* Next : advance over absent and rejected keys to the next passing one.   *)
(* Batch: rounds of B Gets; the stored pairs of a round are filtered as    *)
(*        one chunk; rounds repeat until B rows are collected or the keys  *)
(*        are exhausted.  The alias column of the projection is served     *)
(*        from the chunk cache: the values of ALL filtered pairs of the    *)
(*        call, cut down (AdjustChunkCache) to the positions recorded for  *)
(*        the accepted ones, counted by a running index over the filtered  *)
(*        pairs.  The consumer takes an empty batch for the end.           *)
(*                                                                         *)
(* Switches (each one is a change a maintainer could make):                *)
(*  Bug_EmptyRoundBreak  a round that fetched nothing ends the call        *)
(*  Bug_EmptyIsAbsent    len(val) = 0 taken for "not stored" (batch only)  *)
(*  Bug_ConsumedIdx      positions counted in keys consumed, not in pairs  *)
(*  Bug_NoRunningIdx     positions restart at 0 in every round             *)
(***************************************************************************)
EXTENDS Integers, Sequences, FiniteSets, TLC, Json
CONSTANTS MaxK, MaxB, EmitCases,
          Bug_EmptyRoundBreak, Bug_EmptyIsAbsent, Bug_ConsumedIdx, Bug_NoRunningIdx

Status == {"absent", "reject", "pass", "empty"}
VARIABLES pat, B, mode, idx, out, proj, done, polls
vars == <<pat, B, mode, idx, out, proj, done, polls>>
N == Len(pat)
Passes(i) == pat[i] \in {"pass", "empty"}
Expected == SelectSeq([i \in 1..N |-> i], Passes)

\* ---------------- row at a time ----------------
RECURSIVE NextFrom(_)
NextFrom(i) == IF i > N THEN [row |-> 0, idx |-> i]
               ELSE IF Passes(i) THEN [row |-> i, idx |-> i + 1] ELSE NextFrom(i + 1)

\* ---------------- batches ----------------
StoredB(i) == pat[i] # "absent" /\ ~(Bug_EmptyIsAbsent /\ pat[i] = "empty")
\* one round: up to B Gets from position i; fb = the stored pairs met
RECURSIVE Fetch(_, _, _)
Fetch(i, n, fb) == IF n = B THEN [idx |-> i, fb |-> fb, fin |-> FALSE]
                   ELSE IF i > N THEN [idx |-> i, fb |-> fb, fin |-> TRUE]
                   ELSE Fetch(i + 1, n + 1, IF StoredB(i) THEN Append(fb, i) ELSE fb)
\* positions (0-based, into the call's chunk cache) recorded for the accepted pairs of one round
Positions(fb, bidx, consumed) ==
  LET base == IF Bug_ConsumedIdx THEN consumed ELSE IF Bug_NoRunningIdx THEN 0 ELSE bidx
      accI == SelectSeq([j \in 1..Len(fb) |-> j], LAMBDA j : Passes(fb[j]))
  IN [x \in 1..Len(accI) |-> base + accI[x] - 1]
RECURSIVE Rounds(_, _, _, _, _, _)
Rounds(i, start, ret, chosen, cachev, bidx) ==
  LET f == Fetch(i, 0, <<>>) IN
  IF Len(f.fb) = 0 /\ Bug_EmptyRoundBreak THEN [idx |-> f.idx, ret |-> ret, chosen |-> chosen, cachev |-> cachev]
  ELSE LET acc == SelectSeq(f.fb, Passes)
           ret2 == ret \o acc
           ch2 == chosen \o Positions(f.fb, bidx, i - start)
           cv2 == cachev \o f.fb
       IN IF f.fin \/ Len(ret2) >= B THEN [idx |-> f.idx, ret |-> ret2, chosen |-> ch2, cachev |-> cv2]
          ELSE Rounds(f.idx, start, ret2, ch2, cv2, bidx + Len(f.fb))
\* AdjustChunkCache keeps the cached values whose position was recorded; the projection reads them by row number
Kept(cachev, chosen) == LET S == {chosen[x] : x \in 1..Len(chosen)} IN SelectSeq([j \in 1..Len(cachev) |-> j], LAMBDA j : (j - 1) \in S)
ProjOf(r) == LET k == Kept(r.cachev, r.chosen) IN
             [x \in 1..Len(r.ret) |-> IF x <= Len(k) THEN r.cachev[k[x]] ELSE 0]        \* 0 = index out of range (panic)

Init == /\ pat \in UNION { [1..n -> Status] : n \in 0..MaxK }
        /\ B \in 1..MaxB /\ mode \in {"row", "batch"}
        /\ idx = 1 /\ out = <<>> /\ proj = <<>> /\ done = FALSE /\ polls = 0
Poll == /\ ~done /\ polls' = polls + 1 /\ UNCHANGED <<pat, B, mode>>
        /\ IF mode = "row"
           THEN LET r == NextFrom(idx) IN
                /\ idx' = r.idx
                /\ IF r.row = 0 THEN done' = TRUE /\ UNCHANGED <<out, proj>>
                   ELSE done' = FALSE /\ out' = Append(out, r.row) /\ proj' = Append(proj, r.row)
           ELSE LET r == Rounds(idx, idx, <<>>, <<>>, <<>>, 0) IN
                /\ idx' = r.idx
                /\ IF Len(r.ret) = 0 THEN done' = TRUE /\ UNCHANGED <<out, proj>>
                   ELSE done' = FALSE /\ out' = out \o r.ret /\ proj' = proj \o ProjOf(r)
Next == Poll
Spec == Init /\ [][Next]_vars /\ WF_vars(Next)

IsPrefix(s, t) == Len(s) <= Len(t) /\ \A i \in 1..Len(s) : s[i] = t[i]
PrefixOK == IsPrefix(out, Expected) /\ proj = out /\ polls <= N + 1
FinalOK == done => out = Expected
Terminates == <>done

\* (G) every pattern as a real statement over its own store: key i = 'k<i>'; absent keys are not stored,
\* rejected ones hold 'x', passing ones 'p<i>', empty ones ''.
KeyOf(i) == <<107, 48 + i>>
ValOf(i) == CASE pat[i] = "reject" -> <<120>> [] pat[i] = "pass" -> <<112, 48 + i>> [] OTHER -> <<>>
StoreOfPat == LET st == SelectSeq([i \in 1..N |-> i], LAMBDA i : pat[i] # "absent") IN
              [x \in 1..Len(st) |-> [k |-> KeyOf(st[x]), v |-> ValOf(st[x])]]
Emit == (EmitCases /\ polls = 0 /\ mode = "row" /\ B = 1 /\ N >= 1) =>
          PrintT(ToJson([kind |-> "point", keys |-> [i \in 1..N |-> KeyOf(i)], store |-> StoreOfPat, expected |-> [x \in 1..Len(Expected) |-> KeyOf(Expected[x])]]))
=============================================================================
