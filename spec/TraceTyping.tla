----------------------------- MODULE TraceTyping -----------------------------
(* Trace validation for C14: each record is one statement planned (and, if accepted, executed on
   several stores in both modes) by the real engine.  The KvTyping judgement decides what had to
   happen: an ill-typed statement must be rejected by BuildPlan before any storage call; a
   well-typed one must be accepted and must not fail with an operand-type error (statements using
   dynamically typed JSON field access excepted). *)
EXTENDS KvTyping, Json
Trace == ndJsonDeserialize("typing.ndjson")
VARIABLE i
RECURSIVE UsesJson(_)
UsesJson(e) == (e.k = "call" /\ e.op = "json") \/ \E x \in 1..Len(e.a) : UsesJson(e.a[x])
StmtUsesJson(st) == UsesJson(st.where) \/ \E x \in 1..Len(st.fields) : UsesJson(st.fields[x].e)
Verdict(c) ==
  IF WellTypedStmt(c.stmt) THEN
       (IF ~c.accepted THEN "well-typed-statement-rejected"
        ELSE IF c.typeerrs # <<>> /\ ~StmtUsesJson(c.stmt) THEN "operand-type-error-at-execution"
        ELSE "ok")
  ELSE (IF c.accepted THEN "ill-typed-statement-accepted"
        ELSE IF c.ncalls # 0 THEN "storage-touched-before-rejection"
        ELSE "ok")
Init == i = 1
Next == /\ i <= Len(Trace) /\ i' = i + 1
        /\ LET v == Verdict(Trace[i]) IN IF v = "ok" THEN TRUE ELSE PrintT(<<"REJECT", Trace[i].id, v>>)
=============================================================================
