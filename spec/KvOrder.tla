------------------------------- MODULE KvOrder -------------------------------
(***************************************************************************)
(* DESIGN layer for C07: the multi-key comparator of order_plan.go         *)
(* (orderColumnsRow.Less / compare / compareBytes / compareNumber /        *)
(* compareBool).  FinalOrderPlan pushes every child row on a heap ordered  *)
(* by Less and pops them; given a Less that is the contract's strict order *)
(* the pop sequence is a sorted permutation, so the design obligation is   *)
(* that Less agrees with the contract order RowCmp (KvExec) on every pair  *)
(* of rows and every asc/desc vector - including rows whose number column  *)
(* is an integer in one row and a float in the other.                      *)
(*   Bug_MixedTruncate  mixed int/float pairs compared on truncated parts  *)
(*   Bug_StickyDesc     the direction of a key leaks into the next key     *)
(***************************************************************************)
EXTENDS KvExec
CONSTANTS Bug_MixedTruncate, Bug_StickyDesc

\* column values: numbers of both kinds with equal integer parts, texts, Booleans
NumVals == {VInt(2), VInt(3), VFlt(5, 1), VFlt(7, 1), VFlt(2, 0), VInt(10)}
TxtVals == {VStr(<<97>>), VStr(<<97, 98>>), VStr(<<98>>), VStr(<<>>)}
BoolVals == {VBool(TRUE), VBool(FALSE)}
Rows == {<<n, t, b>> : n \in NumVals, t \in TxtVals, b \in BoolVals}
Orders == {<<[f |-> c1, desc |-> d1]>> : c1 \in 1..3, d1 \in BOOLEAN}
          \cup {<<[f |-> c1, desc |-> d1], [f |-> c2, desc |-> d2]>> : c1 \in 1..3, c2 \in 1..3, d1 \in BOOLEAN, d2 \in BOOLEAN}
ColType(c) == CASE c = 1 -> "N" [] c = 2 -> "S" [] OTHER -> "B"

Sign(x) == IF x < 0 THEN -1 ELSE IF x > 0 THEN 1 ELSE 0
Trunc(v) == IF v.t = "i" THEN v.n ELSE v.n \div Pow2(v.d)
\* compareNumber after convertToNumber: floats if either side is a float, else integers
CmpNumber(a, b) ==
  IF a.t = "f" \/ b.t = "f" THEN
       (IF Bug_MixedTruncate /\ a.t # b.t THEN Sign(Trunc(a) - Trunc(b))
        ELSE IF NumEq(a, b) THEN 0 ELSE IF NumLess(a, b) THEN -1 ELSE 1)
  ELSE Sign(a.n - b.n)
CmpBytes(a, b) == Cmp(a.s, b.s)
CmpBool(a, b) == Sign(a.n - b.n)
Compare(tp, a, b, rev) ==
  LET c == CASE tp = "N" -> CmpNumber(a, b) [] tp = "S" -> CmpBytes(a, b) [] OTHER -> CmpBool(a, b) IN IF rev THEN 0 - c ELSE c

RECURSIVE LessFrom(_, _, _, _, _)
LessFrom(l, r, orders, i, prevDesc) ==
  IF i > Len(orders) THEN FALSE
  ELSE LET desc == IF Bug_StickyDesc THEN (orders[i].desc \/ prevDesc) ELSE orders[i].desc
           c == Compare(ColType(orders[i].f), l[orders[i].f], r[orders[i].f], desc)
       IN IF c < 0 THEN TRUE ELSE IF c > 0 THEN FALSE ELSE LessFrom(l, r, orders, i + 1, desc)
Less(l, r, orders) == LessFrom(l, r, orders, 1, FALSE)

VARIABLES x, y, ord
Init == x \in Rows /\ y \in Rows /\ ord \in Orders
Next == UNCHANGED <<x, y, ord>>
\* Design => Contract: Less is exactly the contract's "strictly before"
Agrees == Less(x, y, ord) = (RowCmp(x, y, ord) = "lt")
=============================================================================
