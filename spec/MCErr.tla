-------------------------------- MODULE MCErr --------------------------------
(* (M) the rendering design satisfies the contract relation for every (length, offset, leading /
   trailing blanks, padding) of the grid - so the contract demands nothing impossible - and
   (G) each grid point is emitted for direct NewSyntaxError / NewExecuteError objects. *)
EXTENDS KvErr, Json
CONSTANTS EmitCases
Lens == {0, 1, 2, 5, 34, 35, 36, 37, 69, 70, 71, 72, 73, 105, 106, 107, 141, 142, 200}
Blanks == {0, 1, 4}
Pads == {0, 7, 12}
Body(n) == [i \in 1..n |-> IF i % 11 = 0 THEN 32 ELSE 97 + ((i * 7) % 26)]     \* few repeated substrings, inner spaces
\* the blanks around the query: ASCII spaces, or (bk = 1, 2) the multi-byte U+00A0 / U+3000 mixed with a tab
BlankSeq(k, bk) == IF k = 0 THEN <<>> ELSE IF bk = 0 THEN Spaces(k)
                   ELSE IF bk = 1 THEN (IF k = 1 THEN <<194, 160>> ELSE <<194, 160, 9, 194, 133>> \o Spaces(k - 3))
                   ELSE (IF k = 1 THEN <<227, 128, 128>> ELSE <<32, 227, 128, 128, 226, 128, 131>> \o Spaces(k - 3))
Query(n, l, t) == Spaces(l) \o (IF n = 0 THEN <<>> ELSE [Body(n) EXCEPT ![1] = 115, ![n] = 122]) \o Spaces(t)
QueryB(n, l, t, bk) == BlankSeq(l, bk) \o (IF n = 0 THEN <<>> ELSE [Body(n) EXCEPT ![1] = 115, ![n] = 122]) \o BlankSeq(t, IF bk = 1 THEN 2 ELSE bk)
Offsets(len) == {-1} \cup {p \in 0..(len - 1) : len <= 80 \/ p < 6 \/ p > len - 6 \/ (p % 7 = 0) \/ (p \in 30..40) \/ (p \in 66..76)}
VARIABLES n, l, t, pad, pos, bk
Init == /\ n \in Lens /\ l \in Blanks /\ t \in Blanks /\ pad \in Pads /\ pos = -2 /\ bk \in {0, 1, 2} /\ (bk # 0 => l + t > 0 /\ n \in {5, 36, 72, 106})
Next == pos = -2 /\ pos' \in Offsets(Len(QueryB(n, l, t, bk))) /\ UNCHANGED <<n, l, t, pad, bk>>
Check == pos # -2 =>
  LET q == QueryB(n, l, t, bk)  r == RenderLines(q, pos, pad) IN
  /\ RenderedLines(q, pos, pad, r.line1, r.line2)
  /\ EmitCases => PrintT(ToJson([kind |-> "case", q |-> q, pos |-> pos, pad |-> pad]))
=============================================================================
