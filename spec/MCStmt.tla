------------------------------- MODULE MCStmt -------------------------------
(***************************************************************************)
(* Statement spaces enumerated by TLC for the result properties.  Each     *)
(* distinct state is one (statement, store) case; Emit prints it as JSON   *)
(* for the harness; OracleOK evaluates the contract on it, which guards    *)
(* the oracle (the contract is total on the generated space, the share of  *)
(* unmodelled cases is bounded, its own invariants hold).                  *)
(***************************************************************************)
EXTENDS KvExec, Json

CONSTANTS Mode,      \* "c01" | "c04" | "c05" | "c07" | "c08" | "c09" | "c10"
          Scale      \* 1 = quick, 2 = thorough

S(str) == str
b(x) == x
\* readable byte strings
a == <<97>>   ab == <<97, 98>>   abc == <<97, 98, 99>>   bb == <<98>>   ba == <<98, 97>>
c1 == <<99, 49>>   c2 == <<99, 50>>   dd == <<100>>   BU == <<66>>
Dig(n) == IntText(n)

NoLim == [has |-> FALSE, s |-> 0, n |-> 0]
Lim(s, n) == [has |-> TRUE, s |-> s, n |-> n]
Stmt(kind, fields, where, order, group, lim) ==
  [kind |-> kind, fields |-> fields, where |-> where, order |-> order, group |-> group, lim |-> lim, pairs |-> <<>>, keys |-> <<>>]
Select(fields, where, order, group, lim) == Stmt("select", fields, where, order, group, lim)
F(e, nm) == [e |-> e, nm |-> nm]
O(f, desc) == [f |-> f, desc |-> desc]
SP(k, v) == [k |-> k, v |-> v, doc |-> VUnspec]
SPD(k, doc) == [k |-> k, v |-> RenderJson(doc), doc |-> doc]
Call1(f, x) == ACall(f, <<x>>)
Call2(f, x, y) == ACall(f, <<x, y>>)
All == ABin("^=", AKey, AStr(<<>>))      \* a WHERE every pair satisfies

-----------------------------------------------------------------------------
(* Stores *)

StoreI == << SP(a, Dig(1)), SP(ab, Dig(2)), SP(abc, Dig(3)), SP(bb, Dig(10)), SP(ba, Dig(2)), SP(c1, Dig(7)), SP(c2, Dig(1)), SP(dd, Dig(0)) >>
StoreF == << SP(a, <<49, 46, 53>>), SP(ab, <<48, 46, 50, 53>>), SP(abc, Dig(3)), SP(bb, <<49, 48>>), SP(ba, <<50, 46, 48>>), SP(c1, <<55, 46, 53>>) >>
\* texts: mixed case, empty value, a non-UTF-8 byte, shared prefixes
StoreT == << SP(<<>>, <<101>>), SP(<<65>>, <<88, 121>>), SP(a, <<>>), SP(ab, <<97, 98>>), SP(abc, <<65, 66, 67>>), SP(bb, <<255, 97>>),
             SP(ba, <<97, 44, 98, 44, 99>>), SP(c1, <<97, 98, 99>>), SP(c2, <<98>>), SP(dd, <<97, 32, 98>>), SP(<<100, 255>>, <<66>>), SP(<<122>>, <<97>>) >>
RECURSIVE SeqStore(_)
SeqStore(n) == IF n = 0 THEN <<>> ELSE Append(SeqStore(n - 1), SP(<<107>> \o (IF n < 10 THEN <<48>> ELSE <<>>) \o Dig(n), Dig((n * 7) % 5)))

-----------------------------------------------------------------------------
(* c01: WHERE predicates of the documented core language *)

StrLefts == { AKey, AVal, Call1("upper", AKey), Call1("lower", AVal), ABin("+", AKey, AStr(<<120>>)) }
StrLits  == { AStr(a), AStr(ab), AStr(BU), AStr(<<>>) }
ReLits   == { AStr(<<94, 97>>), AStr(<<98, 36>>), AStr(<<94, 97, 46, 42, 99, 36>>), AStr(bb), AStr(<<94, 97, 98, 36>>) }
StrOps   == { "=", "!=", "^=", ">", ">=", "<", "<=" }
NumLefts == { Call1("int", AVal), Call1("strlen", AKey), ABin("+", Call1("int", AVal), AInt(1)), ABin("*", Call1("strlen", AKey), AInt(2)) }
FltLefts == { Call1("float", AVal), ABin("*", Call1("float", AVal), AInt(2)), ABin("-", Call1("float", AVal), AFlt(1, 1)) }
NumLits  == { AInt(1), AInt(2), AInt(10), AFlt(3, 1), AFlt(1, 2) }
NumOps   == { "=", "!=", ">", ">=", "<", "<=" }

StrAtoms == { ABin(op, l, r) : op \in StrOps, l \in StrLefts, r \in StrLits }
            \cup { ABin(op, r, l) : op \in StrOps, l \in {AKey, AVal}, r \in StrLits }
            \cup { ABin("~=", l, r) : l \in {AKey, AVal, Call1("lower", AVal)}, r \in ReLits }
            \cup { AIn(AKey, <<AStr(a), AStr(ab), AStr(a)>>), AIn(AVal, <<AStr(ab), AStr(<<>>)>>), AIn(Call1("upper", AKey), <<AStr(<<65, 66>>)>>),
                   ABetween(AKey, AStr(a), AStr(bb)), ABetween(AVal, AStr(<<65>>), AStr(<<97, 98>>)) }
NumAtoms(L) == { ABin(op, l, r) : op \in NumOps, l \in L, r \in NumLits }
               \cup { ABin(op, r, l) : op \in NumOps, l \in L, r \in {AInt(2), AFlt(3, 1)} }
               \cup { AIn(l, <<AInt(1), AInt(2)>>) : l \in L } \cup { ABetween(l, AInt(1), AInt(3)) : l \in L }
SmallStr == { ABin("^=", AKey, AStr(a)), ABin(">", AStr(ab), AKey), ABin("=", Call1("lower", AVal), AStr(ab)), ABin("~=", AVal, AStr(<<94, 97>>)),
              AIn(AKey, <<AStr(a), AStr(ab), AStr(a)>>), ABin("!=", AVal, AStr(<<>>)), ABin("<=", ABin("+", AKey, AStr(<<120>>)), AStr(<<97, 120>>)) }
SmallNum == { ABin(">", Call1("int", AVal), AInt(2)), ABin("=", Call1("strlen", AKey), AInt(2)), ABin("<=", AInt(2), Call1("int", AVal)),
              ABetween(Call1("int", AVal), AInt(1), AInt(3)), ABin("!=", ABin("+", Call1("int", AVal), AInt(1)), AInt(3)) }
Conn == {"&", "|", "and", "or"}
Combos(X) == { ABin(op, l, r) : op \in Conn, l \in X, r \in X } \cup { ANot(x) : x \in X }

C01Cases ==
  { [st |-> Select(<<>>, w, <<>>, <<>>, NoLim), sid |-> "T"] : w \in StrAtoms \cup Combos(SmallStr) }
  \cup { [st |-> Select(<<>>, w, <<>>, <<>>, NoLim), sid |-> "I"] : w \in NumAtoms(NumLefts) \cup Combos(SmallNum \cup SmallStr) }
  \cup { [st |-> Select(<<>>, w, <<>>, <<>>, NoLim), sid |-> "F"] : w \in NumAtoms(FltLefts) }
  \cup { [st |-> Select(<<>>, w, <<>>, <<>>, NoLim), sid |-> "E"] : w \in SmallStr \cup SmallNum }

-----------------------------------------------------------------------------
StoreOf(sid) == CASE sid = "T" -> StoreT [] sid = "I" -> StoreI [] sid = "F" -> StoreF [] sid = "E" -> <<>>
                  [] sid = "S40" -> SeqStore(40) [] sid = "S7" -> SeqStore(7) [] OTHER -> <<>>
StoreIds == {"T", "I", "F", "E", "S40", "S7"}

Cases == CASE Mode = "c01" -> C01Cases [] OTHER -> {}

\* enumeration is split so that TLC's workers share it: Init picks a partition, Next a case of it
PartOf(c) == <<c.sid, c.st.where.k, c.st.where.op, Len(c.st.fields), Len(c.st.order), c.st.lim.s>>
VARIABLES cs, stage
vars == <<cs, stage>>
Init == stage = 0 /\ cs \in {[part |-> PartOf(c)] : c \in Cases}
Next == stage = 0 /\ stage' = 1 /\ cs' \in {c \in Cases : PartOf(c) = cs.part}

\* the contract is total on the generated space and its answers are well formed
OracleOK ==
  stage = 1 =>
  LET st == cs.st  store == StoreOf(cs.sid)  base == BaseRows(st, store) IN
  /\ SortedStore(store)
  /\ ModelledB(st, store, base) =>
       /\ \A x \in 1..Len(base) : Len(base[x]) = (IF st.fields = <<>> THEN 2 ELSE Len(st.fields))
       /\ st.order = <<>> => SelectOKB(st, base, IF st.lim.has THEN Take(base, st.lim.s, st.lim.n) ELSE base)
  /\ PrintT(ToJson([kind |-> "case", stmt |-> st, sid |-> cs.sid]))

ASSUME \A sid \in StoreIds : PrintT(ToJson([kind |-> "store", sid |-> sid, store |-> StoreOf(sid)]))
=============================================================================
