------------------------------- MODULE MCStmt -------------------------------
(***************************************************************************)
(* Statement spaces enumerated by TLC for the result properties.  Each     *)
(* distinct state is one (statement, store) case; Emit prints it as JSON   *)
(* for the harness; OracleOK evaluates the contract on it, which guards    *)
(* the oracle (the contract is total on the generated space, the share of  *)
(* unmodelled cases is bounded, its own invariants hold).                  *)
(***************************************************************************)
EXTENDS KvExec, Json

CONSTANTS Mode,      \* "c01" | "c04" | "c05" | "c07" | "c08" | "c09" | "c10"
          Scale      \* 1 = quick, 2 = thorough

S(str) == str
b(x) == x
\* readable byte strings
a == <<97>>   ab == <<97, 98>>   abc == <<97, 98, 99>>   bb == <<98>>   ba == <<98, 97>>
c1 == <<99, 49>>   c2 == <<99, 50>>   dd == <<100>>   BU == <<66>>
Dig(n) == IntText(n)

NoLim == [has |-> FALSE, s |-> 0, n |-> 0]
Lim(s, n) == [has |-> TRUE, s |-> s, n |-> n]
Stmt(kind, fields, where, order, group, lim) ==
  [kind |-> kind, fields |-> fields, where |-> where, order |-> order, group |-> group, lim |-> lim, pairs |-> <<>>, keys |-> <<>>]
Select(fields, where, order, group, lim) == Stmt("select", fields, where, order, group, lim)
F(e, nm) == [e |-> e, nm |-> nm]
O(f, desc) == [f |-> f, desc |-> desc]
SP(k, v) == [k |-> k, v |-> v, doc |-> VUnspec]
SPD(k, doc) == [k |-> k, v |-> RenderJson(doc), doc |-> doc]
Call1(f, x) == ACall(f, <<x>>)
Call2(f, x, y) == ACall(f, <<x, y>>)
All == ABin("^=", AKey, AStr(<<>>))      \* a WHERE every pair satisfies

-----------------------------------------------------------------------------
(* Stores *)

StoreI == << SP(a, Dig(1)), SP(ab, Dig(2)), SP(abc, Dig(3)), SP(bb, Dig(10)), SP(ba, Dig(2)), SP(c1, Dig(7)), SP(c2, Dig(1)), SP(dd, Dig(0)) >>
StoreF == << SP(a, <<49, 46, 53>>), SP(ab, <<48, 46, 50, 53>>), SP(abc, Dig(3)), SP(bb, <<49, 48>>), SP(ba, <<50, 46, 48>>), SP(c1, <<55, 46, 53>>) >>
\* texts: mixed case, empty value, a non-UTF-8 byte, shared prefixes
StoreT == << SP(<<>>, <<101>>), SP(<<65>>, <<88, 121>>), SP(a, <<>>), SP(ab, <<97, 98>>), SP(abc, <<65, 66, 67>>), SP(bb, <<255, 97>>),
             SP(ba, <<97, 44, 98, 44, 99>>), SP(c1, <<97, 98, 99>>), SP(c2, <<98>>), SP(dd, <<97, 32, 98>>), SP(<<100, 255>>, <<66>>), SP(<<122>>, <<97>>) >>
RECURSIVE SeqStore(_)
SeqStore(n) == IF n = 0 THEN <<>> ELSE Append(SeqStore(n - 1), SP(<<107>> \o (IF n < 10 THEN <<48>> ELSE <<>>) \o Dig(n), Dig((n * 7) % 5)))

-----------------------------------------------------------------------------
(* c01: WHERE predicates of the documented core language *)

StrLefts == { AKey, AVal, Call1("upper", AKey), Call1("lower", AVal), ABin("+", AKey, AStr(<<120>>)) }
StrLits  == { AStr(a), AStr(ab), AStr(BU), AStr(<<>>) }
ReLits   == { AStr(<<94, 97>>), AStr(<<98, 36>>), AStr(<<94, 97, 46, 42, 99, 36>>), AStr(bb), AStr(<<94, 97, 98, 36>>) }
StrOps   == { "=", "!=", "^=", ">", ">=", "<", "<=" }
NumLefts == { Call1("int", AVal), Call1("strlen", AKey), ABin("+", Call1("int", AVal), AInt(1)), ABin("*", Call1("strlen", AKey), AInt(2)) }
FltLefts == { Call1("float", AVal), ABin("*", Call1("float", AVal), AInt(2)), ABin("-", Call1("float", AVal), AFlt(1, 1)) }
NumLits  == { AInt(1), AInt(2), AInt(10), AFlt(3, 1), AFlt(1, 2) }
NumOps   == { "=", "!=", ">", ">=", "<", "<=" }

StrAtoms == { ABin(op, l, r) : op \in StrOps, l \in StrLefts, r \in StrLits }
            \cup { ABin(op, r, l) : op \in StrOps, l \in {AKey, AVal}, r \in StrLits }
            \cup { ABin("~=", l, r) : l \in {AKey, AVal, Call1("lower", AVal)}, r \in ReLits }
            \cup { AIn(AKey, <<AStr(a), AStr(ab), AStr(a)>>), AIn(AVal, <<AStr(ab), AStr(<<>>)>>), AIn(Call1("upper", AKey), <<AStr(<<65, 66>>)>>),
                   ABetween(AKey, AStr(a), AStr(bb)), ABetween(AVal, AStr(<<65>>), AStr(<<97, 98>>)) }
NumAtoms(L) == { ABin(op, l, r) : op \in NumOps, l \in L, r \in NumLits }
               \cup { ABin(op, r, l) : op \in NumOps, l \in L, r \in {AInt(2), AFlt(3, 1)} }
               \cup { AIn(l, <<AInt(1), AInt(2)>>) : l \in L } \cup { ABetween(l, AInt(1), AInt(3)) : l \in L }
SmallStr == { ABin("^=", AKey, AStr(a)), ABin(">", AStr(ab), AKey), ABin("=", Call1("lower", AVal), AStr(ab)), ABin("~=", AVal, AStr(<<94, 97>>)),
              AIn(AKey, <<AStr(a), AStr(ab), AStr(a)>>), ABin("!=", AVal, AStr(<<>>)), ABin("<=", ABin("+", AKey, AStr(<<120>>)), AStr(<<97, 120>>)) }
SmallNum == { ABin(">", Call1("int", AVal), AInt(2)), ABin("=", Call1("strlen", AKey), AInt(2)), ABin("<=", AInt(2), Call1("int", AVal)),
              ABetween(Call1("int", AVal), AInt(1), AInt(3)), ABin("!=", ABin("+", Call1("int", AVal), AInt(1)), AInt(3)) }
Conn == {"&", "|", "and", "or"}
Combos(X) == { ABin(op, l, r) : op \in Conn, l \in X, r \in X } \cup { ANot(x) : x \in X }

C01Cases ==
  { [st |-> Select(<<>>, w, <<>>, <<>>, NoLim), sid |-> "T"] : w \in StrAtoms \cup Combos(SmallStr) }
  \cup { [st |-> Select(<<>>, w, <<>>, <<>>, NoLim), sid |-> "I"] : w \in NumAtoms(NumLefts) \cup Combos(SmallNum \cup SmallStr) }
  \cup { [st |-> Select(<<>>, w, <<>>, <<>>, NoLim), sid |-> "F"] : w \in NumAtoms(FltLefts) }
  \cup { [st |-> Select(<<>>, w, <<>>, <<>>, NoLim), sid |-> "E"] : w \in SmallStr \cup SmallNum }

-----------------------------------------------------------------------------
(* c10: scalar functions and list / JSON indexing *)

Comma == <<44>>
Texts == { <<>>, a, <<65, 98>>, <<65, 66, 67>>, <<97, 44, 98, 44, 99>>, <<49, 50>>, <<45, 51>>, <<49, 46, 53>>, <<120, 32, 121>>, <<48, 55>>, <<49, 101, 51>> }
Ints  == { AInt(0), AInt(1), AInt(2), AInt(3), AInt(7), AInt(12), ABin("-", AInt(0), AInt(3)) }
Flts  == { AFlt(1, 1), AFlt(3, 1), AFlt(2, 0), AFlt(1, 2) }
TArgs == { AStr(t) : t \in Texts }
RowT  == { AKey, AVal }
L123  == ACall("list", <<AInt(1), AInt(2), AInt(3)>>)
Vecs  == { ACall("list", <<AInt(3), AInt(4)>>), ACall("list", <<AInt(0), AInt(0)>>), ACall("list", <<AInt(6), AInt(8)>>),
           ACall("int_list", <<AInt(4), AInt(3)>>), ACall("float_list", <<AInt(3), AInt(4)>>), ACall("list", <<AInt(1)>>),
           ACall("list", <<AInt(0), AInt(5)>>), ACall("flist", <<AFlt(3, 0), AFlt(4, 0)>>), ACall("ilist", <<AInt(0), AInt(1)>>) }
SplitV == Call2("split", AVal, AStr(Comma))
FuncExprs ==
  { Call1(f, x) : f \in {"upper", "lower", "strlen", "str", "is_int", "is_float", "int", "float"}, x \in TArgs \cup RowT }
  \cup { Call1(f, x) : f \in {"str", "strlen", "int", "float", "is_int", "is_float"}, x \in Ints \cup Flts \cup {Call1("int", AVal), Call1("strlen", AKey)} }
  \cup { Call2("split", x, AStr(sep)) : x \in TArgs \cup RowT, sep \in {Comma, <<32>>, <<98>>, <<44, 98>>} }
  \cup { Call1("len", Call2("split", x, AStr(Comma))) : x \in TArgs \cup RowT }
  \cup { AIdx(Call2("split", x, AStr(Comma)), AInt(n)) : x \in {AStr(<<97, 44, 98, 44, 99>>), AVal}, n \in {0, 1, 2} }
  \cup { ACall("join", <<AStr(sep), x, y>>) : sep \in {Comma, <<>>, <<45, 45>>}, x \in {AStr(a), AKey, AInt(7)}, y \in {AStr(<<>>), AVal, AInt(12)} }
  \cup { ACall("join", <<AStr(Comma), AIdx(SplitV, AInt(0)), AIdx(SplitV, AInt(1)), AIdx(SplitV, AInt(2))>>) }
  \cup { L123, Call1("len", L123), AIdx(L123, AInt(0)), AIdx(L123, AInt(1)), AIdx(L123, AInt(2)),
         ACall("int_list", <<AInt(5), AInt(6)>>), Call1("len", ACall("int_list", <<AInt(5), AInt(6)>>)), AIdx(ACall("ilist", <<AInt(5), AInt(6)>>), AInt(1)),
         ACall("float_list", <<AFlt(1, 1), AInt(2)>>), Call1("len", ACall("flist", <<AFlt(1, 1), AInt(2)>>)), AIdx(ACall("float_list", <<AFlt(1, 1), AInt(2)>>), AInt(0)),
         ACall("list", <<AFlt(1, 1), AFlt(5, 1)>>), ACall("list", <<Call1("int", AVal), AInt(1)>>), Call1("len", ACall("list", <<Call1("strlen", AKey)>>)),
         AIdx(ACall("list", <<Call1("strlen", AKey), AInt(9)>>), AInt(0)) }
  \cup { Call2(f, x, y) : f \in {"l2_distance", "cosine_distance"}, x \in Vecs, y \in Vecs }
  \cup { Call2("l2_distance", ACall("list", <<AInt(1), AInt(2), AInt(2)>>), Call2("split", AVal, AStr(Comma))) }

C10Fields == { [st |-> Select(<<F(AKey, ""), F(e, "")>>, All, <<>>, <<>>, NoLim), sid |-> sid] : e \in FuncExprs, sid \in {"T", "V"} }
FuncPreds == { ABin("=", Call1("upper", AVal), AStr(<<65, 66>>)), ABin(">", Call1("strlen", AVal), AInt(1)), Call1("is_int", AVal), Call1("is_float", AVal),
               ABin("=", Call1("len", SplitV), AInt(3)), ABin("=", AIdx(SplitV, AInt(1)), AStr(bb)), AIn(AStr(bb), <<AIdx(SplitV, AInt(1))>>),
               ABin("in", AStr(bb), SplitV), ABin("in", AInt(2), L123), ABin("in", Call1("strlen", AKey), L123),
               ABin("=", ACall("join", <<AStr(<<45>>), AKey, AVal>>), AStr(<<97, 45>>)), ABin("<", Call2("l2_distance", ACall("list", <<AInt(1), AInt(2), AInt(2)>>), SplitV), AInt(1)),
               ANot(Call1("is_int", AVal)), ABin("&", Call1("is_int", AVal), ABin(">", Call1("int", AVal), AInt(1))) }
C10Preds == { [st |-> Select(<<>>, w, <<>>, <<>>, NoLim), sid |-> sid] : w \in FuncPreds, sid \in {"T", "V"} }

\* JSON documents (rendered by the spec, never parsed by it); members in name order; numbers are floats
JN(n) == VFlt(n, 0)
J1 == VObj(<<VMem(a, JN(1)), VMem(bb, VStr(<<120>>)), VMem(<<108>>, VList(<<JN(1), JN(2), JN(3)>>)), VMem(<<111>>, VObj(<<VMem(<<112>>, VStr(<<113>>))>>))>>)
J2 == VObj(<<VMem(a, VStr(<<115>>)), VMem(bb, JN(2))>>)
J3 == VObj(<<VMem(a, VBool(TRUE)), VMem(<<108>>, VList(<<VStr(<<117>>), VStr(<<118>>)>>))>>)
J4 == VObj(<<>>)
J5 == VObj(<<VMem(a, JN(12)), VMem(<<108>>, VList(<<>>)), VMem(<<111>>, VObj(<<VMem(<<112>>, VObj(<<VMem(<<122>>, JN(7))>>))>>))>>)
J6 == VObj(<<VMem(a, VFlt(5, 1)), VMem(bb, VStr(<<>>)), VMem(<<108>>, VList(<<VList(<<JN(1)>>), VObj(<<VMem(a, JN(0))>>)>>))>>)
StoreJ == << SPD(<<106, 49>>, J1), SPD(<<106, 50>>, J2), SPD(<<106, 51>>, J3), SPD(<<106, 52>>, J4), SPD(<<106, 53>>, J5), SPD(<<106, 54>>, J6) >>
JV == Call1("json", AVal)
JsonExprs == { JV, AIdx(JV, AStr(a)), AIdx(JV, AStr(bb)), AIdx(JV, AStr(<<108>>)), AIdx(AIdx(JV, AStr(<<108>>)), AInt(1)), AIdx(AIdx(JV, AStr(<<108>>)), AInt(0)),
               AIdx(AIdx(JV, AStr(<<111>>)), AStr(<<112>>)), AIdx(AIdx(AIdx(JV, AStr(<<111>>)), AStr(<<112>>)), AStr(<<122>>)), AIdx(JV, AStr(<<111>>)),
               AIdx(AIdx(AIdx(JV, AStr(<<108>>)), AInt(1)), AStr(a)) }
C10Json == { [st |-> Select(<<F(AKey, ""), F(e, "")>>, ABin("^=", AKey, AStr(<<106>>)), <<>>, <<>>, NoLim), sid |-> "J"] : e \in JsonExprs }
           \cup { [st |-> Select(<<>>, w, <<>>, <<>>, NoLim), sid |-> "J"] :
                     w \in { ABin("=", AIdx(JV, AStr(bb)), AStr(<<120>>)), ABin("^=", AIdx(AIdx(JV, AStr(<<111>>)), AStr(<<112>>)), AStr(<<113>>)) } }
C10Cases == C10Fields \cup C10Preds \cup C10Json

\* values for the function families: comma lists, numbers, mixed case
StoreV == << SP(a, <<97, 44, 98, 44, 99>>), SP(ab, <<49, 44, 50, 44, 50>>), SP(abc, <<55>>), SP(bb, <<65, 98>>), SP(ba, <<49, 46, 53>>), SP(c1, <<>>), SP(c2, <<45, 51>>) >>

-----------------------------------------------------------------------------
(* c04: expressions with constant sub-trees (folding, Boolean simplification, re-association) *)

KPool == IF Scale >= 2 THEN { AInt(0), AInt(1), AInt(2), AInt(3), AFlt(1, 1), AFlt(3, 1), AFlt(2, 0) }
         ELSE { AInt(1), AInt(2), AInt(3), AFlt(1, 1), AFlt(3, 1), AFlt(2, 0) }
KSmall == { AInt(2), AInt(3), AFlt(1, 1), AFlt(2, 0) }
Ar == {"+", "-", "*", "/"}
K1 == { ABin(op, x, y) : op \in Ar, x \in KPool, y \in KPool }
K2 == { ABin(op2, ABin(op1, x, y), z) : op1 \in Ar, op2 \in Ar, x \in KSmall, y \in KSmall, z \in KSmall }
      \cup { ABin(op2, z, ABin(op1, x, y)) : op1 \in Ar, op2 \in Ar, x \in KSmall, y \in KSmall, z \in KSmall }
RowNum == { Call1("int", AVal), Call1("float", AVal), Call1("strlen", AKey) }
\* (x op c1) op c2 : the re-association rule, and the shapes next to it that must NOT be re-associated
Reassoc == { ABin(op2, ABin(op1, x, y), z) : op1 \in Ar, op2 \in Ar, x \in RowNum, y \in KSmall, z \in KSmall }
           \cup { ABin(op2, ABin(op1, y, x), z) : op1 \in {"+", "*"}, op2 \in {"+", "*"}, x \in RowNum, y \in KSmall, z \in KSmall }
           \cup { ABin(op, ABin(op, ABin(op, x, y), z), y) : op \in {"+", "*"}, x \in RowNum, y \in KSmall, z \in KSmall }
KStr == { ABin("+", AStr(a), AStr(bb)), ABin("+", ABin("+", AKey, AStr(a)), AStr(bb)), ABin("+", AStr(a), ABin("+", AStr(bb), AKey)), Call1("upper", ABin("+", AStr(a), AStr(bb))),
          Call1("strlen", AStr(abc)), ABin("+", Call1("strlen", AStr(abc)), Call1("int", AVal)), Call1("str", ABin("+", AInt(1), AInt(2))), Call1("int", AStr(<<52, 50>>)),
          Call1("float", AStr(<<49, 46, 53>>)), ABin("*", Call1("float", AStr(<<49, 46, 53>>)), AInt(2)), Call1("lower", Call1("upper", AStr(a))),
          ACall("join", <<AStr(Comma), AStr(a), AInt(1)>>), Call1("len", L123), Call1("is_int", AStr(<<49>>)) }
C04Fields == { [st |-> Select(<<F(AKey, ""), F(e, "")>>, All, <<>>, <<>>, NoLim), sid |-> "F"] : e \in K1 \cup K2 \cup Reassoc \cup KStr }
CT == ABin("=", AInt(1), AInt(1))
CF == ABin(">", AInt(1), AInt(2))
PK == ABin("^=", AKey, AStr(a))
BoolSimp == { ABin(op, x, y) : op \in {"&", "|"}, x \in {CT, CF, PK}, y \in {CT, CF, PK} }
            \cup { ABin("&", ABin("|", CF, PK), CT), ABin("|", ABin("&", CT, PK), CF), ANot(CT), ABin("&", ANot(CF), PK),
                   ABin("=", ABin("+", AStr(a), AStr(bb)), AKey), ABin("<", Call1("strlen", AKey), ABin("+", AInt(1), AInt(1))) }
C04Preds == { [st |-> Select(<<>>, ABin(op, l, k), <<>>, <<>>, NoLim), sid |-> "F"] : op \in {">", "=", "<="}, l \in {Call1("float", AVal)}, k \in K1 }
            \cup { [st |-> Select(<<>>, w, <<>>, <<>>, NoLim), sid |-> "F"] : w \in BoolSimp }
C04Cases == C04Fields \cup C04Preds

-----------------------------------------------------------------------------
StoreOf(sid) == CASE sid = "T" -> StoreT [] sid = "I" -> StoreI [] sid = "F" -> StoreF [] sid = "E" -> <<>>
                  [] sid = "J" -> StoreJ [] sid = "V" -> StoreV [] sid = "S40" -> SeqStore(40) [] sid = "S7" -> SeqStore(7) [] OTHER -> <<>>
StoreIds == {"T", "I", "F", "E", "J", "V", "S40", "S7"}

Cases == CASE Mode = "c01" -> C01Cases [] Mode = "c10" -> C10Cases [] Mode = "c04" -> C04Cases [] OTHER -> {}

\* enumeration is split so that TLC's workers share it: Init picks a partition, Next a case of it
FieldTag(c) == IF Len(c.st.fields) >= 2 THEN <<c.st.fields[2].e.k, c.st.fields[2].e.op, Len(c.st.fields[2].e.a)>> ELSE <<>>
PartOf(c) == <<c.sid, c.st.where.k, c.st.where.op, Len(c.st.fields), Len(c.st.order), c.st.lim.s, FieldTag(c)>>
VARIABLES cs, stage
vars == <<cs, stage>>
Init == stage = 0 /\ cs \in {[part |-> PartOf(c)] : c \in Cases}
Next == stage = 0 /\ stage' = 1 /\ cs' \in {c \in Cases : PartOf(c) = cs.part}

\* the contract is total on the generated space and its answers are well formed
OracleOK ==
  stage = 1 =>
  LET st == cs.st  store == StoreOf(cs.sid)  base == BaseRows(st, store) IN
  /\ SortedStore(store)
  /\ ModelledB(st, store, base) =>
       /\ \A x \in 1..Len(base) : Len(base[x]) = (IF st.fields = <<>> THEN 2 ELSE Len(st.fields))
       /\ st.order = <<>> => SelectOKB(st, base, IF st.lim.has THEN Take(base, st.lim.s, st.lim.n) ELSE base)
  /\ PrintT(ToJson([kind |-> "case", stmt |-> st, sid |-> cs.sid]))

ASSUME \A sid \in StoreIds : PrintT(ToJson([kind |-> "store", sid |-> sid, store |-> StoreOf(sid)]))
=============================================================================
