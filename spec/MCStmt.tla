------------------------------- MODULE MCStmt -------------------------------
(***************************************************************************)
(* Statement spaces enumerated by TLC for the result properties.  Each     *)
(* distinct state is one (statement, store) case; Emit prints it as JSON   *)
(* for the harness; OracleOK evaluates the contract on it, which guards    *)
(* the oracle (the contract is total on the generated space, the share of  *)
(* unmodelled cases is bounded, its own invariants hold).                  *)
(***************************************************************************)
EXTENDS KvExec, KvFold, Json

CONSTANTS Mode,      \* "c01" | "c04" | "c05" | "c07" | "c08" | "c09" | "c10"
          Scale      \* 1 = quick, 2 = thorough



\* readable byte strings
a == <<97>>   ab == <<97, 98>>   abc == <<97, 98, 99>>   bb == <<98>>   ba == <<98, 97>>
c1 == <<99, 49>>   c2 == <<99, 50>>   dd == <<100>>   BU == <<66>>
D16a == <<57,48,48,55,49,57,57,50,53,52,55,52,48,57,57,51>>       \* 9007199254740993 = 2^53 + 1
D16b == <<52,53,48,51,53,57,57,54,50,55,51,55,48,52,57,55>>       \* 4503599627370497 = 2^52 + 1
Dig(n) == IntText(n)

NoLim == [has |-> FALSE, s |-> 0, n |-> 0]
Lim(s, n) == [has |-> TRUE, s |-> s, n |-> n]
Stmt(kind, fields, where, order, group, lim) ==
  [kind |-> kind, fields |-> fields, where |-> where, order |-> order, group |-> group, lim |-> lim, pairs |-> <<>>, keys |-> <<>>]
Select(fields, where, order, group, lim) == Stmt("select", fields, where, order, group, lim)
F(e, nm) == [e |-> e, nm |-> nm]
O(f, desc) == [f |-> f, desc |-> desc]
SP(k, v) == [k |-> k, v |-> v, doc |-> VUnspec]
SPD(k, doc) == [k |-> k, v |-> RenderJson(doc), doc |-> doc]
Call1(f, x) == ACall(f, <<x>>)
Call2(f, x, y) == ACall(f, <<x, y>>)
All == ABin("^=", AKey, AStr(<<>>))      \* a WHERE every pair satisfies

-----------------------------------------------------------------------------
(* Stores *)

StoreI == << SP(a, Dig(1)), SP(ab, Dig(2)), SP(abc, Dig(3)), SP(bb, Dig(10)), SP(ba, Dig(2)), SP(c1, Dig(7)), SP(c2, Dig(1)), SP(dd, Dig(0)) >>
StoreF == << SP(a, <<49, 46, 53>>), SP(ab, <<48, 46, 50, 53>>), SP(abc, Dig(3)), SP(bb, <<49, 48>>), SP(ba, <<50, 46, 48>>), SP(c1, <<55, 46, 53>>) >>
\* texts: mixed case, empty value, a non-UTF-8 byte, shared prefixes
StoreT == << SP(<<>>, <<101>>), SP(<<65>>, <<88, 121>>), SP(a, <<>>), SP(ab, <<97, 98>>), SP(abc, <<65, 66, 67>>), SP(bb, <<255, 97>>),
             SP(ba, <<97, 44, 98, 44, 99>>), SP(c1, <<97, 98, 99>>), SP(c2, <<98>>), SP(dd, <<97, 32, 98>>), SP(<<100, 255>>, <<66>>), SP(<<122>>, <<97>>) >>
RECURSIVE SeqStore(_)
SeqStore(n) == IF n = 0 THEN <<>> ELSE Append(SeqStore(n - 1), SP(<<107>> \o (IF n < 10 THEN <<48>> ELSE <<>>) \o Dig(n), Dig((n * 7) % 5)))

-----------------------------------------------------------------------------
(* c01: WHERE predicates of the documented core language *)

StrLefts == { AKey, AVal, Call1("upper", AKey), Call1("lower", AVal), ABin("+", AKey, AStr(<<120>>)), ACall("substr", <<AVal, AInt(1), AInt(3)>>) }
StrLits  == { AStr(a), AStr(ab), AStr(BU), AStr(<<>>) }
ReLits   == { AStr(<<94, 97>>), AStr(<<98, 36>>), AStr(<<94, 97, 46, 42, 99, 36>>), AStr(bb), AStr(<<94, 97, 98, 36>>) }
StrOps   == { "=", "!=", "^=", ">", ">=", "<", "<=" }
NumLefts == { Call1("int", AVal), Call1("strlen", AKey), ABin("+", Call1("int", AVal), AInt(1)), ABin("*", Call1("strlen", AKey), AInt(2)) }
FltLefts == { Call1("float", AVal), ABin("*", Call1("float", AVal), AInt(2)), ABin("-", Call1("float", AVal), AFlt(1, 1)) }
NumLits  == { AInt(1), AInt(2), AInt(10), AFlt(3, 1), AFlt(1, 2) }
NumOps   == { "=", "!=", ">", ">=", "<", "<=" }

StrAtoms == { ABin(op, l, r) : op \in StrOps, l \in StrLefts, r \in StrLits }
            \cup { ABin(op, r, l) : op \in StrOps, l \in {AKey, AVal}, r \in StrLits }
            \cup { ABin("~=", l, r) : l \in {AKey, AVal, Call1("lower", AVal)}, r \in ReLits }
            \* row-dependent right operands (patterns, prefixes, bounds and list items taken from the pair itself)
            \cup { x \in { ABin(op, l, r) : op \in StrOps \cup {"~="}, l \in {AKey, AVal}, r \in {AKey, AVal, Call1("lower", AVal), ABin("+", AVal, AStr(a))} } : x.a[1] # x.a[2] }
            \cup { AIn(AKey, <<AVal, AStr(a)>>), AIn(AVal, <<AStr(<<120>>), AKey, Call1("lower", AKey)>>), ABetween(AKey, AStr(<<>>), AVal), ABetween(AVal, AKey, AStr(<<122>>)) }
            \cup { AIn(AKey, <<AStr(a), AStr(ab), AStr(a)>>), AIn(AVal, <<AStr(ab), AStr(<<>>)>>), AIn(Call1("upper", AKey), <<AStr(<<65, 66>>)>>),
                   ABetween(AKey, AStr(a), AStr(bb)), ABetween(AVal, AStr(<<65>>), AStr(<<97, 98>>)) }
NumAtoms(L) == { ABin(op, l, r) : op \in NumOps, l \in L, r \in NumLits }
               \cup { x \in { ABin(op, l, r) : op \in NumOps, l \in L, r \in {Call1("strlen", AKey), ABin("*", Call1("strlen", AKey), AInt(2))} } : x.a[1] # x.a[2] }
               \cup { ABin(op, r, l) : op \in NumOps, l \in L, r \in {AInt(2), AFlt(3, 1)} }
               \cup { AIn(l, <<AInt(1), AInt(2)>>) : l \in L } \cup { ABetween(l, AInt(1), AInt(3)) : l \in L }
SmallStr == { ABin("^=", AKey, AStr(a)), ABin(">", AStr(ab), AKey), ABin("=", Call1("lower", AVal), AStr(ab)), ABin("~=", AVal, AStr(<<94, 97>>)),
              AIn(AKey, <<AStr(a), AStr(ab), AStr(a)>>), ABin("!=", AVal, AStr(<<>>)), ABin("<=", ABin("+", AKey, AStr(<<120>>)), AStr(<<97, 120>>)) }
SmallNum == { ABin(">", Call1("int", AVal), AInt(2)), ABin("=", Call1("strlen", AKey), AInt(2)), ABin("<=", AInt(2), Call1("int", AVal)),
              ABetween(Call1("int", AVal), AInt(1), AInt(3)), ABin("!=", ABin("+", Call1("int", AVal), AInt(1)), AInt(3)) }
Conn == {"&", "|", "and", "or"}
Combos(X) == { ABin(op, l, r) : op \in Conn, l \in X, r \in X } \cup { ANot(x) : x \in X }

\* chains of operators of one binding strength group from the left: (v - 1) - 2, (v / 2) / 2, (8 / 2) * v, (n - 1) + 1
IV == Call1("int", AVal)
NumChains == { ABin("=", ABin("-", ABin("-", IV, AInt(1)), AInt(2)), AInt(0)), ABin(">=", ABin("/", ABin("/", IV, AInt(2)), AInt(2)), AInt(1)),
               ABin(">", ABin("-", ABin("-", AInt(10), IV), AInt(1)), AInt(2)), ABin("=", ABin("+", ABin("-", Call1("strlen", AKey), AInt(1)), AInt(1)), AInt(2)),
               ABin("=", ABin("*", ABin("/", AInt(8), AInt(2)), IV), AInt(8)), ABin("<", ABin("-", ABin("*", IV, AInt(2)), ABin("*", AInt(1), AInt(3))), AInt(2)),
               ABin("=", ABin("+", ABin("+", AKey, AStr(<<45>>)), AVal), AStr(<<97, 45, 49>>)) }
BigPreds == { ABin(op, IV, Call1("int", AStr(D16a))) : op \in {"=", "!=", ">", "<="} }
            \cup { ABin(">", IV, Call1("int", AStr(<<57,48,48,55,49,57,57,50,53,52,55,52,48,57,57,50>>))), ABin("<", IV, AInt(4)), ABin("=", Call1("str", IV), AVal),
                   ABetween(IV, AInt(3), Call1("int", AStr(D16b))), AIn(IV, <<Call1("int", AStr(D16a)), AInt(7)>>) }
EdgePreds == { AIn(AStr(ab), <<AKey, AVal>>), AIn(AStr(<<>>), <<AVal, AStr(a)>>), ABetween(AStr(ab), AKey, AStr(<<122>>)), ABetween(AStr(bb), AStr(a), AKey),
               ABetween(AKey, AStr(ab), AStr(ab)), ABetween(AVal, AKey, AKey),                                 \* equal bounds: refused alike in both modes
               ABin("=", ABool(TRUE), ABin("^=", AKey, AStr(a))), ABin("!=", ABool(FALSE), ABin("=", AVal, AStr(ab))), ANot(ABin("=", ABool(TRUE), ABin(">", AKey, AStr(a)))),
               ABin("=", ACall("substr", <<AVal, AInt(1), AInt(2)>>), AStr(bb)), ABin("^=", ACall("substr", <<AKey, AInt(1), AInt(3)>>), AStr(bb)),
               ABin("=", ACall("join", <<AStr(<<44>>), AVal, AKey>>), ABin("+", AStr(<<44>>), AKey)) }
C01Cases ==
  { [st |-> Select(<<>>, w, <<>>, <<>>, NoLim), sid |-> sid] : w \in BigPreds, sid \in {"BA", "B"} }
  \cup { [st |-> Select(<<>>, w, <<>>, <<>>, NoLim), sid |-> sid] : w \in EdgePreds, sid \in {"T", "R"} }
  \cup { [st |-> Select(<<>>, w, <<>>, <<>>, NoLim), sid |-> "R"] :
            w \in { ABin("~=", AKey, AVal), ABin("~=", AVal, AKey), ABin("^=", AKey, AVal), AIn(AKey, <<AVal, AStr(a)>>), ABetween(AKey, AVal, AStr(dd)), ABin("|", ABin("~=", AKey, AVal), ABin("=", AVal, AStr(<<120>>))) } }
  \cup { [st |-> Select(<<>>, w, <<>>, <<>>, NoLim), sid |-> "I"] : w \in NumChains \cup { ABin(op, x, y) : op \in {"&", "or"}, x \in NumChains, y \in {ABin("^=", AKey, AStr(a))} } }
  \cup
  { [st |-> Select(<<>>, w, <<>>, <<>>, NoLim), sid |-> "T"] : w \in StrAtoms \cup Combos(SmallStr) }
  \cup { [st |-> Select(<<>>, w, <<>>, <<>>, NoLim), sid |-> "I"] : w \in NumAtoms(NumLefts) \cup Combos(SmallNum \cup SmallStr) }
  \cup { [st |-> Select(<<>>, w, <<>>, <<>>, NoLim), sid |-> "F"] : w \in NumAtoms(FltLefts) }
  \cup { [st |-> Select(<<>>, w, <<>>, <<>>, NoLim), sid |-> "E"] : w \in SmallStr \cup SmallNum }
  \cup { [st |-> Select(<<>>, w, <<>>, <<>>, NoLim), sid |-> "Z"] : w \in SmallStr \cup {All, ABin("=", AVal, AStr(<<>>)), ABin("<=", AKey, AStr(<<>>)), ABin("=", Call1("strlen", AKey), AInt(0))} }

-----------------------------------------------------------------------------
(* pt: point reads.  Every non-empty sub-list of ten candidate keys (five stored - one of them with an empty value -
   and five absent, interleaved so that runs of absent keys of length 1 and 2 sit before, between and after stored ones),
   alone and AND-ed with a value test; the batch sizes 1, 2, 3 put a whole fetch round on absent keys. *)
PtKeys == << a, <<97, 97>>, ab, <<97, 99>>, <<97, 100>>, bb, <<98, 122>>, c1, <<99, 51>>, <<122>> >>
PtList(S) == LET RECURSIVE Go(_) Go(i) == IF i > Len(PtKeys) THEN <<>> ELSE (IF i \in S THEN <<AStr(PtKeys[i])>> ELSE <<>>) \o Go(i + 1) IN Go(1)
RevSeq(q) == [i \in 1..Len(q) |-> q[Len(q) + 1 - i]]
PtMixed == { [st |-> Select(<<>>, w, <<>>, <<>>, NoLim), sid |-> "T"] :
               w \in { AIn(AKey, <<AStr(a), AVal>>), AIn(AKey, <<AVal, AStr(c1)>>), AIn(AKey, <<AStr(a), Call1("lower", AVal), AStr(bb)>>),
                       ABin("|", AIn(AKey, <<AStr(c2), AVal>>), ABin("=", AKey, AStr(a))), ABin("&", AIn(AKey, <<AStr(a), AVal>>), ABin("!=", AVal, AStr(<<120>>))),
                       \* a range that is one point (equal bounds): refused, and refused alike by both iteration modes
                       ABetween(AKey, AStr(ab), AStr(ab)), ABetween(Call1("strlen", AKey), AInt(2), AInt(2)), ABin("|", ABetween(AVal, AKey, AKey), ABin("=", AKey, AStr(a))) } }
PtCases == PtMixed \cup { [st |-> Select(<<>>, w, <<>>, <<>>, NoLim), sid |-> "T"] :
               w \in UNION { { AIn(AKey, PtList(S)), ABin("&", AIn(AKey, PtList(S)), ABin("!=", AVal, AStr(<<120>>))),
                               AIn(AKey, RevSeq(PtList(S))) }                                   \* written in descending order: rows still ascend
                             : S \in (SUBSET (1..Len(PtKeys))) \ {{}} } }
\* point reads under an alias filter (c05), ORDER BY key (c07) and DELETE ... LIMIT (c08d)
PtKeysI == << a, <<97, 97>>, ab, <<97, 99>>, bb, <<98, 122>>, c1, <<99, 51>> >>
PtListI(S) == LET RECURSIVE Go(_) Go(i) == IF i > Len(PtKeysI) THEN <<>> ELSE (IF i \in S THEN <<AStr(PtKeysI[i])>> ELSE <<>>) \o Go(i + 1) IN Go(1)
C05Pt == { [st |-> Select(<<F(AKey, "k"), F(Call1("int", AVal), "n"), F(ABin("*", AName("n"), AInt(2)), "d")>>, ABin("&", AIn(AKey, PtListI(S)), pr), <<>>, <<>>, NoLim), sid |-> "I"] :
             S \in (SUBSET (1..Len(PtKeysI))) \ {{}}, pr \in { ABin("<", AName("n"), AInt(5)), ABin(">", AName("d"), AInt(2)) } }
C07Pt == { [st |-> Select(fs, AIn(AKey, l), <<O(1, FALSE)>>, <<>>, NoLim), sid |-> sid] :
             fs \in { <<>>, <<F(AKey, "k"), F(AVal, "")>> },
             l \in { <<AStr(c1), AStr(a), AStr(bb), AStr(ab)>>, <<AStr(dd), AStr(<<97, 122>>), AStr(a)>>, <<AStr(c2), AStr(c1), AStr(bb), AStr(ba), AStr(abc), AStr(ab), AStr(a)>>, <<AStr(a), AStr(c1), AStr(ab)>> },
             sid \in {"O", "T", "I"} }
KSeq(n) == <<107>> \o (IF n < 10 THEN <<48>> ELSE <<>>) \o Dig(n)
PtKeysD == << KSeq(0), KSeq(1), KSeq(2), KSeq(5), KSeq(3), KSeq(9), KSeq(4) >>      \* the store N4 holds k01..k04: k00, k05, k09 are absent
PtListD(S) == LET RECURSIVE Go(_) Go(i) == IF i > Len(PtKeysD) THEN <<>> ELSE (IF i \in S THEN <<AStr(PtKeysD[i])>> ELSE <<>>) \o Go(i + 1) IN Go(1)
C08DPt == { [st |-> Stmt("delete", <<>>, AIn(AKey, PtListD(S)), <<>>, <<>>, Lim(st0, n)), sid |-> "N4"] :
              S \in { T \in SUBSET (1..Len(PtKeysD)) : Cardinality(T) >= 2 }, st0 \in {0, 1, 2}, n \in {1, 2, 3} }

-----------------------------------------------------------------------------
(* c10: scalar functions and list / JSON indexing *)

Comma == <<44>>
Texts == { <<>>, a, <<65, 98>>, <<65, 66, 67>>, <<97, 44, 98, 44, 99>>, <<49, 50>>, <<45, 51>>, <<49, 46, 53>>, <<120, 32, 121>>, <<48, 55>>, <<49, 101, 51>>,
           <<48,46,48,48,55,56,49,50,53>> }      \* 0.0078125 = 1/128: more decimals than a "%f" keeps
Ints  == { AInt(0), AInt(1), AInt(2), AInt(3), AInt(7), AInt(12), ABin("-", AInt(0), AInt(3)) }
Flts  == { AFlt(1, 1), AFlt(3, 1), AFlt(2, 0), AFlt(1, 2) }
TArgs == { AStr(t) : t \in Texts }
RowT  == { AKey, AVal }
L123  == ACall("list", <<AInt(1), AInt(2), AInt(3)>>)
Vecs  == { ACall("list", <<AInt(3), AInt(4)>>), ACall("list", <<AInt(0), AInt(0)>>), ACall("list", <<AInt(6), AInt(8)>>),
           ACall("int_list", <<AInt(4), AInt(3)>>), ACall("float_list", <<AInt(3), AInt(4)>>), ACall("list", <<AInt(1)>>),
           ACall("list", <<AInt(0), AInt(5)>>), ACall("flist", <<AFlt(3, 0), AFlt(4, 0)>>), ACall("ilist", <<AInt(0), AInt(1)>>) }
SplitV == Call2("split", AVal, AStr(Comma))
FuncExprs ==
  { Call1(f, x) : f \in {"upper", "lower", "strlen", "str", "is_int", "is_float", "int", "float"}, x \in TArgs \cup RowT }
  \cup { Call1(f, x) : f \in {"str", "strlen", "int", "float", "is_int", "is_float"}, x \in Ints \cup Flts \cup {Call1("int", AVal), Call1("strlen", AKey)} }
  \cup { Call2("split", x, AStr(sep)) : x \in TArgs \cup RowT, sep \in {Comma, <<32>>, <<98>>, <<44, 98>>} }
  \cup { Call1("len", Call2("split", x, AStr(Comma))) : x \in TArgs \cup RowT }
  \cup { Call1("len", x) : x \in {AStr(<<>>), AStr(abc), AKey, AVal} }
  \cup { Call1(f, Call1("len", SplitV)) : f \in {"str", "strlen", "int", "float", "is_int"} }
  \cup { ACall("join", <<AStr(Comma), AStr(<<>>), AStr(a)>>), ACall("join", <<AStr(Comma), AStr(a), AStr(<<>>), AStr(bb)>>), ACall("join", <<AStr(Comma), AVal, AKey>>), ACall("join", <<AStr(<<>>), AKey, AVal>>),
         ACall("substr", <<AVal, AInt(1), AInt(3)>>), ACall("substr", <<AKey, AInt(2), AInt(2)>>), ACall("substr", <<AVal, AInt(1), AInt(1)>>) }
  \cup { Call2(f, x, y) : f \in {"cosine_distance", "l2_distance"},
                          x \in { ACall("list", <<AInt(1), AInt(0)>>), ACall("list", <<AInt(0), AInt(3), AInt(4)>>) },
                          y \in { ACall("list", <<AInt(0), AInt(1)>>), ACall("list", <<AInt(1), AInt(0)>>), ACall("list", <<AInt(3), AInt(0), AInt(4)>>), ACall("list", <<AInt(0), AInt(3), AInt(4)>>) } }
  \cup { ACall("join", <<AStr(Comma), AKey, Call1("len", SplitV)>>), ABin("+", Call1("len", SplitV), AInt(1)), ABin("*", Call1("len", SplitV), AFlt(1, 1)) }
  \cup { AIdx(Call2("split", x, AStr(Comma)), AInt(n)) : x \in {AStr(<<97, 44, 98, 44, 99>>), AVal}, n \in {0, 1, 2} }
  \cup { ACall("join", <<AStr(sep), x, y>>) : sep \in {Comma, <<>>, <<45, 45>>}, x \in {AStr(a), AKey, AInt(7)}, y \in {AStr(<<>>), AVal, AInt(12)} }
  \cup { ACall("join", <<AStr(Comma), AIdx(SplitV, AInt(0)), AIdx(SplitV, AInt(1)), AIdx(SplitV, AInt(2))>>) }
  \cup { L123, Call1("len", L123), AIdx(L123, AInt(0)), AIdx(L123, AInt(1)), AIdx(L123, AInt(2)),
         ACall("int_list", <<AInt(5), AInt(6)>>), Call1("len", ACall("int_list", <<AInt(5), AInt(6)>>)), AIdx(ACall("ilist", <<AInt(5), AInt(6)>>), AInt(1)),
         ACall("float_list", <<AFlt(1, 1), AInt(2)>>), Call1("len", ACall("flist", <<AFlt(1, 1), AInt(2)>>)), AIdx(ACall("float_list", <<AFlt(1, 1), AInt(2)>>), AInt(0)),
         ACall("list", <<AFlt(1, 1), AFlt(5, 1)>>), ACall("list", <<Call1("int", AVal), AInt(1)>>), Call1("len", ACall("list", <<Call1("strlen", AKey)>>)),
         AIdx(ACall("list", <<Call1("strlen", AKey), AInt(9)>>), AInt(0)) }
  \cup { Call2(f, x, y) : f \in {"l2_distance", "cosine_distance"}, x \in Vecs, y \in Vecs }
  \cup { Call2("l2_distance", ACall("list", <<AInt(1), AInt(2), AInt(2)>>), Call2("split", AVal, AStr(Comma))) }

C10Fields == { [st |-> Select(<<F(AKey, ""), F(e, "")>>, All, <<>>, <<>>, NoLim), sid |-> sid] : e \in FuncExprs, sid \in {"T", "V"} }
FuncPreds == { ABin("=", Call1("upper", AVal), AStr(<<65, 66>>)), ABin(">", Call1("strlen", AVal), AInt(1)), Call1("is_int", AVal), Call1("is_float", AVal),
               ABin("=", Call1("len", SplitV), AInt(3)), ABin("=", AIdx(SplitV, AInt(1)), AStr(bb)), AIn(AStr(bb), <<AIdx(SplitV, AInt(1))>>),
               ABin("in", AStr(bb), SplitV), ABin("in", AInt(2), L123), ABin("in", Call1("strlen", AKey), L123),
               ABin("=", ACall("join", <<AStr(<<45>>), AKey, AVal>>), AStr(<<97, 45>>)), ABin("<", Call2("l2_distance", ACall("list", <<AInt(1), AInt(2), AInt(2)>>), SplitV), AInt(1)),
               ANot(Call1("is_int", AVal)), ABin("&", Call1("is_int", AVal), ABin(">", Call1("int", AVal), AInt(1))) }
C10Preds == { [st |-> Select(<<>>, w, <<>>, <<>>, NoLim), sid |-> sid] : w \in FuncPreds, sid \in {"T", "V"} }

\* JSON documents (rendered by the spec, never parsed by it); members in name order; numbers are floats
JN(n) == VFlt(n, 0)
J1 == VObj(<<VMem(a, JN(1)), VMem(bb, VStr(<<120>>)), VMem(<<108>>, VList(<<JN(1), JN(2), JN(3)>>)), VMem(<<111>>, VObj(<<VMem(<<112>>, VStr(<<113>>))>>))>>)
J2 == VObj(<<VMem(a, VStr(<<115>>)), VMem(bb, JN(2))>>)
J3 == VObj(<<VMem(a, VBool(TRUE)), VMem(<<108>>, VList(<<VStr(<<117>>), VStr(<<118>>)>>))>>)
J4 == VObj(<<>>)
J5 == VObj(<<VMem(a, JN(12)), VMem(<<108>>, VList(<<>>)), VMem(<<111>>, VObj(<<VMem(<<112>>, VObj(<<VMem(<<122>>, JN(7))>>))>>))>>)
J6 == VObj(<<VMem(a, VFlt(5, 1)), VMem(bb, VStr(<<>>)), VMem(<<108>>, VList(<<VList(<<JN(1)>>), VObj(<<VMem(a, JN(0))>>)>>))>>)
\* a document may be stored with white space around it
SPDW(k, doc, pre, post) == [k |-> k, v |-> pre \o RenderJson(doc) \o post, doc |-> doc]
\* an integer text member, then (in key order) members of the other JSON kinds: Boolean, list, object, number, absent
J55 == VObj(<<VMem(a, VStr(<<55>>)), VMem(bb, VStr(<<50, 46, 53>>))>>)
J56 == VObj(<<VMem(a, VBool(TRUE)), VMem(bb, VList(<<JN(1)>>))>>)
J57 == VObj(<<VMem(a, VStr(<<49, 50>>)), VMem(bb, VStr(<<51>>))>>)
J58 == VObj(<<VMem(a, VObj(<<>>)), VMem(bb, JN(4))>>)
J59 == VObj(<<VMem(a, VStr(<<56>>))>>)
StoreJ == << SPD(<<106, 49>>, J1), SPD(<<106, 50>>, J2), SPD(<<106, 51>>, J3), SPD(<<106, 52>>, J4), SPD(<<106, 53>>, J5),
             SPD(<<106, 53, 53>>, J55), SPD(<<106, 53, 54>>, J56), SPD(<<106, 53, 55>>, J57), SPD(<<106, 53, 56>>, J58), SPD(<<106, 53, 57>>, J59), SPD(<<106, 54>>, J6),
             SPDW(<<106, 55>>, J2, <<32>>, <<>>), SPDW(<<106, 56>>, J1, <<10, 32>>, <<32, 10>>), SPDW(<<106, 57>>, J5, <<9>>, <<>>) >>
JV == Call1("json", AVal)
JsonExprs == { JV, AIdx(JV, AStr(a)), AIdx(JV, AStr(bb)), AIdx(JV, AStr(<<108>>)), AIdx(AIdx(JV, AStr(<<108>>)), AInt(1)), AIdx(AIdx(JV, AStr(<<108>>)), AInt(0)),
               AIdx(AIdx(JV, AStr(<<111>>)), AStr(<<112>>)), AIdx(AIdx(AIdx(JV, AStr(<<111>>)), AStr(<<112>>)), AStr(<<122>>)), AIdx(JV, AStr(<<111>>)),
               AIdx(AIdx(AIdx(JV, AStr(<<108>>)), AInt(1)), AStr(a)),
               \* len counts the elements of ANY list value: one that comes out of a document too (judged per key: not every document has the member)
               Call1("len", AIdx(JV, AStr(<<108>>))) }
JsonTypeExprs == { Call1("is_int", AIdx(JV, AStr(a))), Call1("is_float", AIdx(JV, AStr(a))), Call1("is_int", AIdx(JV, AStr(bb))), Call1("is_float", AIdx(JV, AStr(<<108>>))),
                   Call1("str", AIdx(JV, AStr(a))), Call1("strlen", AIdx(JV, AStr(bb))),
                   \* the length of a list that comes out of a document
                   Call1("len", AIdx(JV, AStr(<<108>>))), ABin("+", Call1("len", AIdx(JV, AStr(<<108>>))), AInt(1)) }
JKeys == {<<106, 53, 53>>, <<106, 53, 54>>, <<106, 53, 55>>, <<106, 53, 56>>, <<106, 53, 57>>, <<106, 49>>, <<106, 50>>, <<106, 51>>, <<106, 52>>, <<106, 53>>, <<106, 54>>, <<106, 55>>, <<106, 56>>, <<106, 57>>}
C10Json == { [st |-> Select(<<F(AKey, ""), F(e, "")>>, ABin("^=", AKey, AStr(<<106>>)), <<>>, <<>>, NoLim), sid |-> "J"] : e \in JsonExprs \cup JsonTypeExprs }
           \cup { [st |-> Select(<<F(AKey, ""), F(e, "")>>, ABin("=", AKey, AStr(k)), <<>>, <<>>, NoLim), sid |-> "J"] : e \in JsonExprs, k \in JKeys }
           \cup { [st |-> Select(<<>>, w, <<>>, <<>>, NoLim), sid |-> "J"] :
                     w \in { ABin("=", AIdx(JV, AStr(bb)), AStr(<<120>>)), ABin("^=", AIdx(AIdx(JV, AStr(<<111>>)), AStr(<<112>>)), AStr(<<113>>)) } }
           \cup { [st |-> Select(<<>>, ABin("&", ABin("=", AKey, AStr(<<106, 49>>)), w), <<>>, <<>>, NoLim), sid |-> "J"] :
                     w \in { ABin("=", AIdx(JV, AStr(bb)), AStr(<<120>>)), ABin("^=", AIdx(AIdx(JV, AStr(<<111>>)), AStr(<<112>>)), AStr(<<113>>)),
                              ABin("!=", AIdx(AIdx(JV, AStr(<<111>>)), AStr(<<112>>)), AStr(<<122>>)) } }
\* row-dependent arguments in EVERY position of the multi-argument functions (a chunk holds rows with different values)
RowArgExprs == { ACall("join", <<AVal, AKey, AStr(<<120>>)>>), ACall("join", <<AKey, AVal, AVal>>), ACall("join", <<Call1("upper", AKey), AStr(a), AVal, AKey>>),
                 Call2("split", AVal, AKey), Call2("split", AKey, AVal), ACall("substr", <<AVal, Call1("strlen", AKey), AInt(3)>>), ACall("substr", <<AVal, AInt(0), Call1("strlen", AKey)>>),
                 ACall("substr", <<AKey, Call1("strlen", AVal), Call1("strlen", AKey)>>), Call2("cosine_distance", SplitV, SplitV),
                 Call2("l2_distance", SplitV, ACall("list", <<Call1("strlen", AKey), AInt(2), AInt(2)>>)) }
C10RowArgs == { [st |-> Select(<<F(AKey, ""), F(e, "")>>, All, <<>>, <<>>, NoLim), sid |-> sid] : e \in RowArgExprs, sid \in {"T", "V"} }
\* integers beyond 2^53 keep every digit: straight from the pair, through str(), as a literal
StoreB == << SP(<<57,48,48,55,49,57,57,50,53,52,55,52,48,57,57,51>>, <<55>>), SP(a, <<57,48,48,55,49,57,57,50,53,52,55,52,48,57,57,51>>), SP(ab, <<49,50,51,52,53,54,55,56,57,48,49,50,51,52,53,54,55,56,57>>),
             SP(abc, <<45,57,48,48,55,49,57,57,50,53,52,55,52,48,57,57,51>>), SP(bb, <<52,50>>),
             \* the ends of the int64 range: further apart than any difference can express
             SP(c1, <<57,50,50,51,51,55,50,48,51,54,56,53,52,55,55,53,56,48,55>>), SP(c2, <<45,57,50,50,51,51,55,50,48,51,54,56,53,52,55,55,53,56,48,55>>), SP(dd, <<45,53>>) >>
N99x(d) == <<57,48,48,55,49,57,57,50,53,52,55,52,48,57,57>> \o <<d>>
StoreBG == << SP(a, N99x(51)), SP(ab, N99x(50)), SP(abc, N99x(52)), SP(bb, N99x(51)), SP(c1, <<52,50>>), SP(c2, N99x(50)) >>
BigExprs == { Call1("int", AVal), Call1("str", Call1("int", AVal)), Call1("int", AKey) , Call1("int", Call1("upper", AVal)), Call1("int", AStr(<<57,48,48,55,49,57,57,50,53,52,55,52,48,57,57,51>>)),
              Call1("is_int", AVal), ABin("=", Call1("str", Call1("int", AVal)), AVal), AIdx(ACall("int_list", <<AVal, AInt(1)>>), AInt(0)) }
C10Big == { [st |-> Select(<<F(AKey, ""), F(e, "")>>, ABin("!=", AKey, AStr(<<122>>)), <<>>, <<>>, NoLim), sid |-> "B"] : e \in BigExprs }
\* constant first arguments evaluated on every chunk of a long scan (40 rows: two chunks of 32)
LitArgExprs == { AIdx(Call2("split", AStr(<<120, 44, 121, 44, 122>>), AStr(Comma)), AInt(1)), Call1("len", Call2("split", AStr(<<120, 44, 121, 44, 122>>), AStr(Comma))),
                 ABin("+", AStr(a), AKey), Call1("upper", ABin("+", AStr(a), AVal)), ACall("join", <<AStr(<<45>>), AStr(a), AKey>>), ACall("substr", <<AStr(abc), AInt(1), AInt(2)>>),
                 Call2("split", ABin("+", AStr(<<120, 44>>), AKey), AStr(Comma)), AIdx(ACall("list", <<AInt(7), AInt(8)>>), AInt(1)) }
C10Long == { [st |-> Select(<<F(AKey, ""), F(e, "")>>, All, <<>>, <<>>, NoLim), sid |-> "S40"] : e \in LitArgExprs }
           \cup { [st |-> Select(<<>>, ABin("=", AIdx(Call2("split", AStr(<<120, 44, 121>>), AStr(Comma)), AInt(1)), AStr(<<121>>)), <<>>, <<>>, NoLim), sid |-> "S40"] }
C10Cases == C10Fields \cup C10Preds \cup C10Json \cup C10RowArgs \cup C10Big \cup C10Long

\* values for the function families: comma lists, numbers, mixed case
StoreV == << SP(a, <<97, 44, 98, 44, 99>>), SP(ab, <<49, 44, 50, 44, 50>>), SP(abc, <<55>>), SP(bb, <<65, 98>>), SP(ba, <<49, 46, 53>>), SP(c1, <<>>), SP(c2, <<45, 51>>) >>

-----------------------------------------------------------------------------
(* c04: expressions with constant sub-trees (folding, Boolean simplification, re-association) *)

KPool == IF Scale >= 2 THEN { AInt(0), AInt(1), AInt(2), AInt(3), AFlt(1, 1), AFlt(3, 1), AFlt(2, 0) }
         ELSE { AInt(1), AInt(2), AInt(3), AFlt(1, 1), AFlt(3, 1), AFlt(2, 0) }
KSmall == { AInt(2), AInt(3), AFlt(1, 1), AFlt(2, 0), AInt(1), AFlt(1, 0) }        \* 1 and 1.0: neutral, but 1.0 still makes the result a float
Ar == {"+", "-", "*", "/"}
K1 == { ABin(op, x, y) : op \in Ar, x \in KPool, y \in KPool }
K2 == { ABin(op2, ABin(op1, x, y), z) : op1 \in Ar, op2 \in Ar, x \in KSmall, y \in KSmall, z \in KSmall }
      \cup { ABin(op2, z, ABin(op1, x, y)) : op1 \in Ar, op2 \in Ar, x \in KSmall, y \in KSmall, z \in KSmall }
RowNum == { Call1("int", AVal), Call1("float", AVal), Call1("strlen", AKey) }
\* (x op c1) op c2 : the re-association rule, and the shapes next to it that must NOT be re-associated
Reassoc == { ABin(op2, ABin(op1, x, y), z) : op1 \in Ar, op2 \in Ar, x \in RowNum, y \in KSmall, z \in KSmall }
           \cup { ABin(op2, ABin(op1, y, x), z) : op1 \in {"+", "*"}, op2 \in {"+", "*"}, x \in RowNum, y \in KSmall, z \in KSmall }
           \cup { ABin(op, ABin(op, ABin(op, x, y), z), y) : op \in {"+", "*"}, x \in RowNum, y \in KSmall, z \in KSmall }
KStr == { \* text chains with three and four trailing constants (text + is not commutative: the order must survive re-association)
          ABin("+", ABin("+", ABin("+", AKey, AStr(a)), AStr(bb)), AStr(c1)), ABin("+", ABin("+", AKey, ABin("+", AStr(a), AStr(bb))), AStr(c1)),
          ABin("+", ABin("+", ABin("+", ABin("+", AVal, AStr(a)), AStr(bb)), AStr(c1)), AStr(dd)), ABin("=", ABin("+", ABin("+", ABin("+", AKey, AStr(a)), AStr(bb)), AStr(c1)), AStr(<<97, 97, 98, 99, 49>>)),
          ABin("+", ABin("+", AStr(a), AKey), AStr(bb)), ABin("+", AStr(a), ABin("+", AKey, AStr(bb))), ABin("+", ABin("+", AStr(<<60>>), AVal), AStr(<<62>>)),
          ABin("+", AStr(a), AStr(bb)), ABin("+", ABin("+", AKey, AStr(a)), AStr(bb)), ABin("+", AStr(a), ABin("+", AStr(bb), AKey)), Call1("upper", ABin("+", AStr(a), AStr(bb))),
          Call1("strlen", AStr(abc)), ABin("+", Call1("strlen", AStr(abc)), Call1("int", AVal)), Call1("str", ABin("+", AInt(1), AInt(2))), Call1("int", AStr(<<52, 50>>)),
          Call1("float", AStr(<<49, 46, 53>>)), ABin("*", Call1("float", AStr(<<49, 46, 53>>)), AInt(2)), Call1("lower", Call1("upper", AStr(a))),
          ACall("join", <<AStr(Comma), AStr(a), AInt(1)>>), Call1("len", L123), Call1("is_int", AStr(<<49>>)),
          \* a folded call whose value needs more than six decimals (1/128), alone and inside arithmetic and comparisons
          Call1("float", AStr(<<48,46,48,48,55,56,49,50,53>>)), ABin("*", Call1("float", AStr(<<48,46,48,48,55,56,49,50,53>>)), AInt(128)),
          ABin("+", Call1("float", AVal), Call1("float", AStr(<<48,46,48,48,55,56,49,50,53>>))), ABin("=", ABin("*", Call1("float", AStr(<<48,46,48,48,55,56,49,50,53>>)), AInt(128)), AInt(1)) }
C04Fields == { [st |-> Select(<<F(AKey, ""), F(e, "")>>, All, <<>>, <<>>, NoLim), sid |-> "F"] : e \in K1 \cup K2 \cup Reassoc \cup KStr }
CT == ABin("=", AInt(1), AInt(1))
CF == ABin(">", AInt(1), AInt(2))
PK == ABin("^=", AKey, AStr(a))
BoolSimp == { ABin(op, x, y) : op \in {"&", "|", "and", "or"}, x \in {CT, CF, PK}, y \in {CT, CF, PK} }
            \cup { ABin(op, ABin(">=", Call1("float", AVal), AFlt(3, 1)), c) : op \in {"&", "|", "and", "or"}, c \in {CT, CF} }
            \cup { ABin("&", ABin("|", CF, PK), CT), ABin("|", ABin("&", CT, PK), CF), ANot(CT), ABin("&", ANot(CF), PK),
                   ABin("=", ABin("+", AStr(a), AStr(bb)), AKey), ABin("<", Call1("strlen", AKey), ABin("+", AInt(1), AInt(1))) }
C04Preds == { [st |-> Select(<<>>, ABin(op, l, k), <<>>, <<>>, NoLim), sid |-> "F"] : op \in {">", "=", "<="}, l \in {Call1("float", AVal)}, k \in K1 }
            \cup { [st |-> Select(<<>>, w, <<>>, <<>>, NoLim), sid |-> "F"] : w \in BoolSimp }
C04Not == { [st |-> Select(<<>>, ANot(ABin(op, l, k)), <<>>, <<>>, NoLim), sid |-> "F"] :
              op \in {"<=", "<", ">=", ">", "=", "!="}, l \in {Call1("float", AVal)}, k \in {AFlt(3, 1), AInt(3), AFlt(1, 2)} }
          \cup { [st |-> Select(<<>>, ABin("&", ANot(ABin(op, Call1("strlen", AKey), AInt(2))), PK), <<>>, <<>>, NoLim), sid |-> "F"] : op \in {"<=", "<", ">=", ">"} }
C04Names == { [st |-> Select(<<F(AKey, "d"), F(AVal, "d"), F(ABin("+", AName("d"), AStr(<<33>>)), "e")>>, All, <<>>, <<>>, NoLim), sid |-> "F"],
              [st |-> Select(<<F(AKey, ""), F(ACall("join", <<AStr(<<45>>), AStr(a), AStr(bb)>>), "j1"), F(ACall("join", <<AStr(<<45, 39, 44, 32, 39, 97>>), AStr(bb)>>), "j2")>>, All, <<>>, <<>>, NoLim), sid |-> "F"],
              [st |-> Select(<<F(AKey, ""), F(ACall("join", <<AStr(<<45, 39, 44, 32, 39, 97>>), AStr(bb)>>), "j2"), F(ACall("join", <<AStr(<<45>>), AStr(a), AStr(bb)>>), "j1")>>, All, <<>>, <<>>, NoLim), sid |-> "F"] }
C04LitLeft == { [st |-> Select(<<>>, w, <<>>, <<>>, NoLim), sid |-> "F"] :
                  w \in { AIn(AStr(ab), <<AKey, AVal>>), AIn(AStr(<<49, 46, 53>>), <<AVal, AKey>>), ABetween(AStr(ab), AKey, AStr(<<122>>)), ABetween(AStr(bb), AStr(a), AKey),
                          AIn(AInt(3), <<Call1("strlen", AKey), AInt(7)>>), ABetween(AInt(2), AInt(1), Call1("strlen", AKey)) } }
C04Cases == C04Fields \cup C04Preds \cup C04Not \cup C04Names \cup C04LitLeft

-----------------------------------------------------------------------------
(* c08: LIMIT grid.  Offsets and counts around multiples of every batch size the harness uses
   (1, 2, 3, 32), result sizes around them, plain / ordered / aggregated statements.            *)

KAll == ABin("^=", AKey, AStr(<<107>>))                                   \* every pair of SeqStore passes
KSome == ABin(">", Call1("int", AVal), AInt(0))                           \* value (n*7)%5 > 0 : rejects every 5th pair
GridSmall == {0, 1, 2, 3, 4, 6, 7}
GridBig == {0, 1, 31, 32, 33, 64, 65, 70}
SizesSmall == {0, 1, 2, 3, 4, 6, 7, 9}
SizesBig == {31, 32, 33, 64, 65, 66}
LimPlain(w) == Select(<<>>, w, <<>>, <<>>, NoLim)
LimOrdered(w) == Select(<<>>, w, <<O(2, TRUE)>>, <<>>, NoLim)              \* order by value desc: many ties
LimAggr(w) == Select(<<F(AVal, "g"), F(Call1("count", AInt(1)), "c")>>, w, <<>>, <<1>>, NoLim)    \* limit pushed into the aggregate node
LimAggrOrd(w) == Select(<<F(AVal, "g"), F(Call1("count", AInt(1)), "c")>>, w, <<O(2, FALSE)>>, <<1>>, NoLim)
WithLim(st, s, n) == [st EXCEPT !.lim = Lim(s, n)]
SizeId(n) == "N" \o ToString(n)
LimAggrAll(w) == Select(<<F(Call1("count", AInt(1)), "c"), F(Call1("sum", Call1("int", AVal)), "s")>>, w, <<>>, <<>>, NoLim)   \* one row: offset >= 1 or count 0 cut it away
LimAlias(w) == Select(<<F(AKey, ""), F(Call1("int", AVal), "v")>>, ABin("&", w, ABin(">", AName("v"), AInt(0))), <<>>, <<>>, NoLim)  \* filter on a select field: its chunk values are cached
C08Select ==
  { [st |-> WithLim(bs, s, n), sid |-> SizeId(sz)] :
       bs \in {LimPlain(KAll), LimPlain(KSome), LimOrdered(KAll), LimAggr(KAll), LimAggrOrd(KAll), LimAggrAll(KAll), LimAlias(KAll)}, s \in GridSmall, n \in GridSmall, sz \in SizesSmall }
  \cup { [st |-> WithLim(LimAlias(KAll), s, n), sid |-> SizeId(sz)] : s \in {1, 3, 31, 32, 33}, n \in {1, 5, 32, 33}, sz \in {33, 65} }
  \cup { [st |-> WithLim(bs, s, 2000000000), sid |-> SizeId(sz)] :
            bs \in {LimPlain(KAll), LimPlain(KSome), LimOrdered(KAll), LimAggr(KAll), LimAggrOrd(KAll), LimAggrAll(KAll), LimAlias(KAll)}, s \in {0, 1, 3, 33}, sz \in {4, 33} }
  \cup { [st |-> WithLim(bs, s, n), sid |-> SizeId(sz)] :
       bs \in {LimPlain(KAll), LimPlain(KSome)}, s \in GridBig, n \in GridBig, sz \in (IF Scale >= 2 THEN SizesBig ELSE {32, 33, 65}) }
  \cup { [st |-> WithLim(bs, s, n), sid |-> SizeId(sz)] :
       bs \in {LimOrdered(KAll), LimAggr(ABin("^=", AKey, AStr(<<107>>)))}, s \in {0, 31, 32, 33}, n \in {1, 32, 33}, sz \in {32, 33, 65} }
C08Delete ==
  { [st |-> Stmt("delete", <<>>, w, <<>>, <<>>, Lim(s, n)), sid |-> SizeId(sz)] : w \in {KAll, KSome}, s \in GridSmall, n \in GridSmall, sz \in SizesSmall \ {0} }
  \cup { [st |-> Stmt("delete", <<>>, w, <<>>, <<>>, Lim(s, n)), sid |-> SizeId(sz)] : w \in {KAll, KSome}, s \in {0, 31, 32, 33, 64}, n \in {1, 32, 33}, sz \in {33, 65} }
  \cup C08DPt
  \cup { [st |-> Stmt("delete", <<>>, w, <<>>, <<>>, Lim(s, 2000000000)), sid |-> SizeId(sz)] : w \in {KAll, KSome}, s \in {0, 2}, sz \in {4, 33} }
  \* clauses whose list items / patterns come from the pair itself, with and without LIMIT (store T holds ab -> 'ab')
  \cup { [st |-> Stmt("delete", <<>>, w, <<>>, <<>>, lim), sid |-> "T"] :
            w \in { AIn(AKey, <<AStr(a), AVal>>), AIn(AKey, <<AVal, AStr(c1), AStr(<<122>>)>>), ABin("~=", AKey, AVal), ABin("&", ABin("~=", AKey, ABin("+", AStr(<<94>>), AVal)), ABin("!=", AKey, AStr(<<122>>))),
                    ABin("|", AIn(AKey, <<AStr(c2), AVal>>), ABin("=", AKey, AStr(a))) },
            lim \in {NoLim, Lim(0, 1), Lim(1, 1), Lim(0, 5)} }
  \cup { [st |-> Stmt("delete", <<>>, w, <<>>, <<>>, lim), sid |-> "V"] :
            w \in { ABin("in", AKey, Call2("split", AVal, AStr(Comma))), ABin("in", AStr(<<50>>), Call2("split", AVal, AStr(Comma))), ABin("&", ABin("in", AKey, Call2("split", AVal, AStr(Comma))), ABin("!=", AKey, AStr(<<122>>))) },
            lim \in {NoLim, Lim(0, 1)} }
  \cup { [st |-> Stmt("delete", <<>>, w, <<>>, <<>>, lim), sid |-> "R"] :
            w \in { ABin("~=", AKey, AVal), ABin("~=", AVal, AKey), ABin("^=", AKey, AVal), AIn(AKey, <<AVal, AStr(a)>>), ABin("&", ABin("~=", AKey, AVal), ABin(">", AKey, AStr(a))) },
            lim \in {NoLim, Lim(1, 2)} }

-----------------------------------------------------------------------------
(* c07: ORDER BY *)

\* duplicates and ties in every column; integer and float texts; Booleans through is_int
StoreO == << SP(a, Dig(2)), SP(ab, Dig(10)), SP(abc, Dig(2)), SP(bb, <<49, 46, 53>>), SP(ba, Dig(1)), SP(c1, Dig(10)), SP(c2, <<120>>), SP(dd, <<49, 46, 53>>), SP(<<100, 100>>, Dig(1)) >>
OrdFields == << F(AKey, ""), F(AVal, ""), F(Call1("float", AVal), "f"), F(Call1("is_int", AVal), "b"), F(Call1("upper", AVal), "u"), F(Call1("strlen", AVal), "n") >>
OrdVecs == { <<O(f1, d1)>> : f1 \in 1..6, d1 \in BOOLEAN }
           \cup { <<O(f1, d1), O(f2, d2)>> : f1 \in {2, 3, 4, 6}, f2 \in {1, 2, 5, 6}, d1 \in BOOLEAN, d2 \in BOOLEAN }
           \cup { <<O(4, d1), O(6, d2), O(1, d3)>> : d1 \in BOOLEAN, d2 \in BOOLEAN, d3 \in BOOLEAN }
           \cup { <<O(f, d1), O(f, ~d1), O(1, d3)>> : f \in {2, 6}, d1 \in BOOLEAN, d3 \in BOOLEAN }
OrdWheres == { All, ABin("!=", AVal, AStr(<<120>>)) }
C07Plain == { [st |-> Select(OrdFields, w, ov, <<>>, NoLim), sid |-> "O"] : w \in OrdWheres, ov \in OrdVecs }
            \cup { [st |-> Select(<<>>, All, ov, <<>>, NoLim), sid |-> sid] : ov \in { <<O(1, FALSE)>>, <<O(1, TRUE)>>, <<O(2, FALSE)>>, <<O(2, TRUE), O(1, TRUE)>> }, sid \in {"O", "T", "I", "E"} }
\* aggregates as order keys; sums that are integer in one group and float in another
AggFields == << F(ACall("substr", <<AKey, AInt(0), AInt(1)>>), "p"), F(Call1("count", AInt(1)), "c"), F(Call1("sum", Call1("float", AVal)), "s"), F(Call1("max", Call1("float", AVal)), "m") >>
AggFieldsV == << F(ACall("substr", <<AKey, AInt(0), AInt(1)>>), "p"), F(Call1("sum", AVal), "s"), F(Call1("min", AVal), "m") >>
C07Aggr == { [st |-> Select(AggFields, ABin("!=", AVal, AStr(<<120>>)), ov, <<1>>, NoLim), sid |-> "O"] :
                ov \in { <<O(2, d1)>> : d1 \in BOOLEAN } \cup { <<O(3, d1)>> : d1 \in BOOLEAN } \cup { <<O(2, d1), O(4, d2)>> : d1 \in BOOLEAN, d2 \in BOOLEAN } \cup { <<O(1, TRUE)>> } }
           \cup { [st |-> Select(AggFieldsV, ABin("!=", AVal, AStr(<<120>>)), ov, <<1>>, NoLim), sid |-> "O"] :
                ov \in { <<O(2, d1)>> : d1 \in BOOLEAN } \cup { <<O(3, d1), O(1, FALSE)>> : d1 \in BOOLEAN } }
StoreM == << SP(<<97, 49>>, Dig(1)), SP(<<97, 50>>, Dig(2)), SP(<<98, 49>>, <<49, 46, 53>>), SP(<<98, 50>>, Dig(2)), SP(<<99, 49>>, Dig(3)),
             SP(<<100, 49>>, <<48, 46, 53>>), SP(<<100, 50>>, Dig(2)), SP(<<101, 49>>, Dig(2)), SP(<<102, 49>>, <<50, 46, 53>>), SP(<<103, 49>>, <<51, 46, 53>>) >>
C07Mixed == { [st |-> Select(AggFieldsV, All, ov, <<1>>, NoLim), sid |-> "M"] :
                ov \in { <<O(2, d1)>> : d1 \in BOOLEAN } \cup { <<O(3, d1)>> : d1 \in BOOLEAN } \cup { <<O(2, d1), O(1, d2)>> : d1 \in BOOLEAN, d2 \in BOOLEAN } }
            \cup { [st |-> Select(<<F(AKey, ""), F(AVal, "")>>, All, <<O(2, d1)>>, <<>>, NoLim), sid |-> "M"] : d1 \in BOOLEAN }
\* a Boolean GROUP BY column as order key (the first group seen is `true`)
C07BoolKey == { [st |-> Select(<<F(Call1("is_int", AVal), "b"), F(Call1("count", AInt(1)), "c")>>, All, ov, <<1>>, NoLim), sid |-> "O"] : ov \in { <<O(1, FALSE)>>, <<O(1, TRUE)>>, <<O(1, FALSE), O(2, TRUE)>> } }
              \cup { [st |-> Select(<<F(AKey, ""), F(Call1("is_int", AVal), "b"), F(Call1("count", AInt(1)), "c")>>, All, ov, <<1, 2>>, NoLim), sid |-> "O"] :
                       ov \in { <<O(2, FALSE), O(1, FALSE)>>, <<O(2, TRUE), O(1, FALSE)>>, <<O(2, FALSE), O(1, TRUE)>> } }
C07Big == { [st |-> Select(<<F(AKey, ""), F(Call1("int", AVal), "n")>>, ABin("!=", AKey, AStr(<<122>>)), ov, <<>>, NoLim), sid |-> "B"] : ov \in { <<O(2, FALSE)>>, <<O(2, TRUE)>>, <<O(2, TRUE), O(1, FALSE)>> } }
C07Ties == { [st |-> Select(<<>>, All, ov, <<>>, NoLim), sid |-> sid] : ov \in { <<O(2, FALSE), O(1, FALSE)>>, <<O(2, TRUE), O(1, FALSE)>>, <<O(2, FALSE), O(1, TRUE)>> }, sid \in {"S40", "S7"} }
           \cup { [st |-> Select(<<F(AKey, ""), F(Call1("int", AVal), "n")>>, All, <<O(2, d), O(1, FALSE)>>, <<>>, NoLim), sid |-> "S40"] : d \in BOOLEAN }
C07Names == { [st |-> Select(<<F(AKey, "id"), F(AVal, "ID"), F(Call1("strlen", AVal), "Id")>>, All, ov, <<>>, NoLim), sid |-> "O"] :
                ov \in { <<O(2, FALSE)>>, <<O(2, TRUE)>>, <<O(3, FALSE), O(1, TRUE)>>, <<O(1, TRUE)>> } }
\* an order key that is built on another select field's name (text and number)
C07OnNames == { [st |-> Select(<<F(AKey, ""), F(AVal, "v"), F(ABin("+", AName("v"), AStr(<<120>>)), "w"), F(ABin("*", Call1("strlen", AName("v")), AInt(2)), "d")>>, ABin("!=", AVal, AStr(<<120>>)), ov, <<>>, NoLim), sid |-> "O"] :
                  ov \in { <<O(3, FALSE)>>, <<O(3, TRUE)>>, <<O(4, TRUE), O(3, FALSE)>>, <<O(3, TRUE), O(1, FALSE)>> } }
\* GROUP BY + ORDER BY on an integer key beyond 2^53 (neighbouring values must not collapse)
C07BigGroup == { [st |-> Select(<<F(Call1("int", AVal), "n"), F(Call1("count", AInt(1)), "c")>>, ABin("!=", AKey, AStr(<<122>>)), ov, <<1>>, NoLim), sid |-> "BG"] : ov \in { <<O(1, FALSE)>>, <<O(1, TRUE)>>, <<O(2, TRUE), O(1, FALSE)>> } }
\* an order key that fails on one pair (the last scanned, division by zero): the statement fails, in either mode, whatever was sorted so far
C07Err == { [st |-> Select(<<F(AKey, ""), F(ABin("/", AInt(100), IV), "q")>>, w, ov, <<>>, NoLim), sid |-> "I"] :
              w \in {All, ABin("!=", AKey, AStr(a)), ABin("!=", AKey, AStr(dd))}, ov \in { <<O(2, FALSE)>>, <<O(1, TRUE)>>, <<O(2, TRUE), O(1, FALSE)>> } }
C07Cases == C07Err \cup C07BigGroup \cup C07OnNames \cup C07Ties \cup C07Names \cup C07Plain \cup C07Aggr \cup C07Mixed \cup C07Pt \cup C07BoolKey \cup C07Big

-----------------------------------------------------------------------------
(* c09: GROUP BY and aggregates *)

\* value tuples that collide when concatenated: ('a','bc') / ('ab','c'), (1,'23') / (12,'3'); repeated groups
StoreG == << SP(a, <<98, 99>>), SP(ab, <<99>>), SP(abc, <<98, 99>>), SP(bb, <<50, 51>>), SP(<<98, 98, 98, 98, 98, 98, 98, 98, 98, 98, 98, 98>>, <<51>>),
             SP(c1, <<51>>), SP(c2, <<50, 51>>), SP(dd, <<99>>) >>
GExprs == << F(AKey, ""), F(AVal, ""), F(ACall("substr", <<AKey, AInt(0), AInt(1)>>), "p"), F(Call1("upper", AVal), "u"), F(Call1("strlen", AKey), "l"),
             F(Call1("strlen", AVal), "m") >>
Aggs(x, xf) == << F(Call1("count", AInt(1)), "c"), F(Call1("sum", x), "s"), F(Call1("min", x), "mn"), F(Call1("max", x), "mx"), F(Call1("avg", x), "av"),
                  F(Call2("group_concat", AVal, AStr(<<44>>)), "gc"), F(Call1("json_arrayagg", AVal), "ja"), F(Call1("json_arrayagg", x), "jn"),
                  F(ABin("+", Call1("sum", x), Call1("count", AInt(1))), "sc"), F(ABin("*", Call1("sum", xf), AInt(2)), "s2"), F(Call1("sum", xf), "sf"),
                  F(Call1("avg", xf), "af"), F(Call1("min", xf), "nf"), F(Call1("max", xf), "xf") >>
GroupChoices == { <<1, 2>>, <<2>>, <<3>>, <<3, 2>>, <<5, 2>>, <<5, 6>>, <<4>>, <<3, 5, 6>>, <<2, 3>> }
SeqOf(fs, idx) == [i \in 1..Len(idx) |-> fs[idx[i]]]
LenX == Call1("strlen", AVal)
LenF == ABin("*", Call1("strlen", AVal), AFlt(1, 1))
C09Grouped == { [st |-> Select(SeqOf(GExprs, g) \o <<Aggs(LenX, LenF)[k]>>, w, <<>>, [i \in 1..Len(g) |-> i], NoLim), sid |-> "G"] :
                  g \in GroupChoices, k \in 1..14, w \in {All, ABin("!=", AKey, AStr(dd))} }
C09All == { [st |-> Select(<<Aggs(x, xf)[k]>>, w, <<>>, <<>>, NoLim), sid |-> sid] :
              k \in 1..14, w \in {All, ABin(">", AKey, AStr(a)), ABin("=", AKey, AStr(<<122, 122>>))},
              x \in {Call1("int", AVal)}, xf \in {Call1("float", AVal)}, sid \in {"I", "F"} }
          \cup { [st |-> Select(<<F(Call1("count", AInt(1)), ""), F(Call1("sum", Call1("int", AVal)), ""), F(Call1("max", Call1("int", AVal)), "")>>, All, <<>>, <<>>, NoLim), sid |-> sid] : sid \in {"I", "E", "S40"} }
\* an aggregate field that refers to another aggregate field by its name (per-group value, never the previous group's)
CF1 == F(Call1("count", AInt(1)), "c")
C09Refs == { [st |-> Select(<<F(ACall("substr", <<AKey, AInt(0), AInt(1)>>), "p"), CF1, F(ABin(op, Call1("sum", Call1("strlen", AKey)), AName("c")), "a")>>, w, <<>>, <<1>>, lim), sid |-> sid] :
               op \in {"*", "+", "-"}, w \in {All, ABin("!=", AKey, AStr(dd))}, lim \in {NoLim, Lim(1, 2)}, sid \in {"G", "I", "T"} }
\* a stored pair whose key and value are both empty is a pair like any other (it is scanned first)
StoreZ == << SP(<<>>, <<>>) >> \o StoreG
C09Empty == { [st |-> Select(SeqOf(GExprs, g) \o <<Aggs(LenX, LenF)[k]>>, All, <<>>, [i \in 1..Len(g) |-> i], NoLim), sid |-> "Z"] : g \in { <<2>>, <<3>>, <<1, 2>> }, k \in 1..14 }
            \cup { [st |-> Select(<<Aggs(LenX, LenF)[k]>>, All, <<>>, <<>>, NoLim), sid |-> "Z"] : k \in 1..14 }
\* sums over the stored text itself: a group holding 1.5 then 2 (fraction first, integer last) and the other orders
C09Raw == { [st |-> Select(<<F(ACall("substr", <<AKey, AInt(0), AInt(1)>>), "p"), f>>, All, <<>>, <<1>>, NoLim), sid |-> "M"] :
              f \in { F(Call1("sum", AVal), "s"), F(Call1("avg", AVal), "av"), F(Call1("min", AVal), "m"), F(Call1("max", AVal), "x"), F(ABin("*", Call1("sum", AVal), AInt(2)), "s2") } }
          \cup { [st |-> Select(<<f>>, w, <<>>, <<>>, NoLim), sid |-> "M"] :
              f \in { F(Call1("sum", AVal), "s"), F(Call1("avg", AVal), "av") }, w \in { All, ABin("^=", AKey, AStr(bb)), ABin("^=", AKey, AStr(dd)) } }
\* integer and fractional texts in one group, in both orders, negative ones too
StoreX == << SP(<<97, 49>>, Dig(2)), SP(<<97, 50>>, <<50, 46, 53>>), SP(<<98, 49>>, Dig(3)), SP(<<98, 50>>, <<50, 46, 53>>), SP(<<99, 49>>, <<45, 50>>), SP(<<99, 50>>, <<45, 50, 46, 53>>),
             SP(<<100, 49>>, <<50, 46, 53>>), SP(<<100, 50>>, Dig(3)), SP(<<101, 49>>, <<45, 50, 46, 53>>), SP(<<101, 50>>, <<45, 50>>), SP(<<102, 49>>, Dig(7)),
             SP(<<103, 49>>, Dig(5)), SP(<<103, 50>>, Dig(3)), SP(<<103, 51>>, <<52, 46, 53>>),                                           \* 5, 3, 4.5
             SP(<<104, 49>>, Dig(9)), SP(<<104, 50>>, Dig(7)), SP(<<104, 51>>, Dig(2)), SP(<<104, 52>>, <<56, 46, 50, 53>>), SP(<<104, 53>>, Dig(6)),   \* 9, 7, 2, 8.25, 6
             SP(<<105, 49>>, <<49, 46, 53>>), SP(<<105, 50>>, Dig(4)), SP(<<105, 51>>, <<51, 46, 50, 53>>), SP(<<105, 52>>, Dig(1)) >>          \* 1.5, 4, 3.25, 1
C09MixedText == { [st |-> Select(<<F(ACall("substr", <<AKey, AInt(0), AInt(1)>>), "p"), f>>, All, <<>>, <<1>>, NoLim), sid |-> "X"] :
              f \in { F(Call1("sum", AVal), "s"), F(Call1("avg", AVal), "av"), F(Call1("min", AVal), "m"), F(Call1("max", AVal), "x"), F(ABin("-", Call1("max", AVal), Call1("min", AVal)), "r") } }
\* quantile: approximate by definition (the contract leaves its value open), but total for every percent
QPcts == { Call1("float", AStr(<<110, 97, 110>>)), Call1("float", AStr(<<73, 110, 102>>)), AInt(0), AInt(1), AFlt(1, 1), AFlt(1, 2), ABin("-", AInt(0), AFlt(1, 1)), ABin("-", AInt(0), AInt(1)), ABin("-", AInt(1), AFlt(1, 1)), AFlt(3, 1) }
C09Quantile == { [st |-> Select(<<F(Call2("quantile", x, q), "q"), F(Call1("count", AInt(1)), "c")>>, All, <<>>, <<>>, NoLim), sid |-> sid] :
                   x \in {Call1("int", AVal), Call1("float", AVal), AVal}, q \in QPcts, sid \in {"I", "E"} }
               \cup { [st |-> Select(<<F(AVal, "g"), F(Call2("quantile", Call1("strlen", AKey), q), "q")>>, All, <<>>, <<1>>, NoLim), sid |-> "G"] : q \in QPcts }
\* integers beyond 2^53: sums and means keep every digit (the integer accumulator, not a float one)
StoreBA == << SP(<<97, 49>>, D16a), SP(<<97, 50>>, Dig(1)), SP(<<98, 49>>, D16b), SP(<<98, 50>>, D16b), SP(<<99, 49>>, Dig(7)), SP(<<99, 50>>, D16a), SP(<<99, 51>>, Dig(2)), SP(<<99, 52>>, Dig(2)) >>
C09BigInts == { [st |-> Select(<<F(ACall("substr", <<AKey, AInt(0), AInt(1)>>), "p"), f>>, All, <<>>, <<1>>, NoLim), sid |-> "BA"] :
                  f \in { F(Call1("sum", Call1("int", AVal)), "s"), F(Call1("avg", Call1("int", AVal)), "a"), F(Call1("sum", AVal), "sv"), F(Call1("avg", AVal), "av"), F(Call1("count", AInt(1)), "c") } }
              \cup { [st |-> Select(<<f>>, ABin("^=", AKey, AStr(pre)), <<>>, <<>>, NoLim), sid |-> "BA"] :
                  f \in { F(Call1("sum", Call1("int", AVal)), "s"), F(Call1("avg", Call1("int", AVal)), "a") }, pre \in { <<97>>, <<98>>, <<99>> } }
\* arithmetic around aggregates that fails for one group (a one-pair group: count(1) - 1 = 0), before and after fields that do not
C09Err == { [st |-> Select(fs, All, <<>>, <<1>>, NoLim), sid |-> "G"] :
              fs \in { <<F(ACall("substr", <<AKey, AInt(0), AInt(1)>>), "p"), F(ABin("/", Call1("sum", Call1("strlen", AKey)), ABin("-", Call1("count", AInt(1)), AInt(1))), "q"), F(Call1("count", AInt(1)), "c")>>,
                       <<F(ACall("substr", <<AKey, AInt(0), AInt(1)>>), "p"), F(Call1("count", AInt(1)), "c"), F(ABin("/", AInt(6), ABin("-", Call1("count", AInt(1)), AInt(1))), "q")>>,
                       <<F(ACall("substr", <<AKey, AInt(0), AInt(1)>>), "p"), F(ABin("/", Call1("max", Call1("strlen", AVal)), ABin("-", Call1("min", Call1("strlen", AVal)), Call1("max", Call1("strlen", AVal)))), "q"), F(Call1("count", AInt(1)), "c"), F(Call1("min", Call1("strlen", AKey)), "m")>> } }
C09Cases == C09Err \cup C09BigInts \cup C09Quantile \cup C09MixedText \cup C09Grouped \cup C09All \cup C09Refs \cup C09Empty \cup C09Raw

-----------------------------------------------------------------------------
(* c05: aliases and the field cache.  Stores in which the first, middle and last scanned rows fail the filter. *)

NV == F(Call1("int", AVal), "n")
UV == F(Call1("upper", AVal), "u")
C05Stmts == {
  Select(<<F(AKey, ""), NV>>, ABin(">", AName("n"), AInt(2)), <<>>, <<>>, NoLim),
  Select(<<F(AKey, ""), NV>>, ABin("<=", AName("n"), AInt(2)), <<>>, <<>>, NoLim),
  Select(<<NV, F(AKey, "k")>>, ABin("&", ABin(">", AName("n"), AInt(1)), ABin("!=", AName("k"), AStr(ab))), <<>>, <<>>, NoLim),
  Select(<<F(AKey, ""), NV, F(ABin("*", AName("n"), AInt(2)), "d")>>, ABin(">", AName("d"), AInt(3)), <<>>, <<>>, NoLim),
  Select(<<F(AKey, ""), UV, F(Call1("strlen", AName("u")), "l")>>, ABin("=", AName("l"), AInt(1)), <<>>, <<>>, NoLim),
  Select(<<F(AKey, ""), F(AVal, "v"), F(ACall("join", <<AStr(<<44>>), AName("v"), AKey>>), "j")>>, ABin("!=", AName("v"), AStr(<<49>>)), <<>>, <<>>, NoLim),
  Select(<<F(AKey, ""), NV, F(Call1("len", ACall("list", <<AName("n"), AInt(1)>>)), "ll")>>, ABin(">=", AName("n"), AInt(1)), <<>>, <<>>, NoLim),
  Select(<<F(AKey, ""), NV, F(AIdx(ACall("int_list", <<AName("n"), AInt(5)>>), AInt(0)), "first")>>, ABin("!=", AName("n"), AInt(2)), <<>>, <<>>, NoLim),
  Select(<<F(AKey, ""), NV, F(AIdx(ACall("float_list", <<AName("n"), AInt(5)>>), AInt(0)), "ff")>>, ABin("!=", AName("n"), AInt(2)), <<>>, <<>>, NoLim),
  Select(<<F(AKey, ""), NV>>, ABin(">", AName("n"), AInt(0)), <<O(2, TRUE), O(1, FALSE)>>, <<>>, NoLim),
  Select(<<F(AKey, ""), NV>>, ABin(">", AName("n"), AInt(1)), <<O(2, FALSE)>>, <<>>, Lim(1, 3)),
  Select(<<NV, F(Call1("count", AInt(1)), "c")>>, ABin(">", AName("n"), AInt(0)), <<>>, <<1>>, NoLim),
  Select(<<NV, F(Call1("count", AInt(1)), "c"), F(Call2("group_concat", AKey, AStr(<<44>>)), "ks")>>, ABin("!=", AName("n"), AInt(7)), <<O(2, TRUE)>>, <<1>>, NoLim),
  Select(<<F(AKey, ""), NV>>, ABin("in", AName("n"), AList(<<AInt(1), AInt(2)>>)), <<>>, <<>>, NoLim),
  Select(<<F(AKey, ""), NV>>, ABetween(AName("n"), AInt(2), AInt(7)), <<>>, <<>>, NoLim),
  Select(<<F(AKey, ""), F(Call2("split", AVal, AStr(<<44>>)), "parts")>>, ABin("in", AStr(<<49>>), AName("parts")), <<>>, <<>>, NoLim),
  Select(<<F(AKey, ""), NV>>, ABin("|", ABin("=", AName("n"), AInt(1)), ABin("=", AKey, AStr(bb))), <<>>, <<>>, NoLim),
  Select(<<F(AKey, ""), NV>>, ABin("|", ABin("=", AKey, AStr(bb)), ABin("=", AName("n"), AInt(1))), <<>>, <<>>, NoLim),
  Select(<<F(AKey, ""), NV, UV>>, ABin("or", ABin("^=", AKey, AStr(c1)), ABin("&", ABin("<", AName("n"), AInt(2)), ABin("!=", AName("u"), AStr(<<>>)))), <<>>, <<>>, NoLim),
  Select(<<F(AKey, ""), UV>>, ABin("|", ABin("=", AKey, AStr(abc)), ABin("=", AName("u"), AStr(<<49>>))), <<>>, <<>>, NoLim),
  Select(<<NV, F(AKey, "k")>>, ABin("&", ABin("!=", AName("k"), AStr(a)), ABin("|", ABin("=", AName("k"), AStr(dd)), ABin(">", AName("n"), AInt(2)))), <<>>, <<>>, NoLim),
  Select(<<F(AKey, ""), NV>>, ABin("&", ABin("^=", AKey, AStr(a)), ABin(">", AName("n"), AInt(1))), <<>>, <<>>, NoLim),
  Select(<<F(AKey, ""), NV>>, ABin("&", AIn(AKey, <<AStr(a), AStr(abc), AStr(c1), AStr(dd)>>), ABin(">", AName("n"), AInt(1))), <<>>, <<>>, NoLim),
  Select(<<F(AKey, ""), NV>>, ABin("&", ABin(">", AKey, AStr(a)), ABin("!=", AName("n"), AInt(3))), <<>>, <<>>, NoLim),
  Select(<<F(AKey, ""), NV, UV>>, ABin("&", ABin(">", AName("n"), AInt(0)), ABin("!=", AName("u"), AStr(<<55>>))), <<>>, <<>>, Lim(1, 4)),
  \* a text field built on another field's name as the ORDER BY key (its type is known only after the name is resolved)
  Select(<<F(AKey, ""), F(AVal, "v"), F(ABin("+", AName("v"), AStr(<<45, 120>>)), "w")>>, ABin("!=", AName("v"), AStr(<<120>>)), <<O(3, FALSE)>>, <<>>, NoLim),
  Select(<<F(AKey, ""), F(AVal, "v"), F(ABin("+", AName("v"), AStr(<<45, 120>>)), "w")>>, ABin("!=", AName("v"), AStr(<<120>>)), <<O(3, TRUE), O(1, FALSE)>>, <<>>, NoLim),
  \* two different extensions of one named text (each must keep its own bytes: no shared buffer behind the name)
  Select(<<F(ABin("+", AKey, AStr(<<95>>)), "a"), F(ABin("+", AName("a"), AStr(<<120>>)), "b"), F(ABin("+", AName("a"), AStr(<<121>>)), "c")>>, ABin("!=", AKey, AStr(ab)), <<>>, <<>>, NoLim),
  Select(<<F(AKey, ""), F(Call1("upper", AVal), "a"), F(ABin("+", AName("a"), AStr(<<120, 120>>)), "b"), F(ABin("+", AName("a"), AStr(<<121>>)), "c"), F(ABin("+", AName("b"), AName("c")), "d")>>, ABin("!=", AName("a"), AStr(<<55>>)), <<>>, <<>>, NoLim),
  \* a named list field as the right operand of IN, numeric and text
  Select(<<F(AKey, ""), F(ACall("int_list", <<Call1("strlen", AKey), AInt(2)>>), "l"), NV>>, ABin("in", AName("n"), AName("l")), <<>>, <<>>, NoLim),
  Select(<<F(AKey, ""), F(ACall("list", <<Call1("upper", AKey), AStr(<<49>>)>>), "l"), F(AVal, "v")>>, ABin("in", AName("v"), AName("l")), <<>>, <<>>, NoLim)
}
KA == AName("k")
\* a select field that is nothing but the name of another one; two fields under one name (the name means the first)
C05Bare == { Select(<<F(AKey, "zz"), F(AName("zz"), "")>>, ABin("^=", AKey, AStr(a)), <<>>, <<>>, NoLim),
             Select(<<F(AKey, "zz"), F(AName("zz"), "y"), F(Call1("upper", AName("y")), "u")>>, ABin("!=", AName("zz"), AStr(ab)), <<>>, <<>>, NoLim),
             Select(<<NV, F(AName("n"), ""), F(ABin("+", AName("n"), AInt(1)), "m"), F(AName("m"), "")>>, ABin(">", AName("m"), AInt(2)), <<>>, <<>>, NoLim),
             Select(<<F(AKey, "d"), F(AVal, "d")>>, ABin("^=", AName("d"), AStr(a)), <<>>, <<>>, NoLim),
             Select(<<F(AKey, "d"), F(AVal, "d"), F(ABin("+", AName("d"), AStr(<<33>>)), "e")>>, ABin("!=", AName("d"), AStr(a)), <<>>, <<>>, NoLim),
             Select(<<F(AVal, "d"), F(Call1("int", AVal), "d"), F(AKey, "")>>, ABin("!=", AName("d"), AStr(<<50>>)), <<O(1, TRUE)>>, <<>>, NoLim) }
C05LitLeft == { Select(<<F(AKey, "k"), NV>>, w, <<>>, <<>>, NoLim) :
                  w \in { ABin(">", AStr(c1), KA), ABin("<=", AStr(ab), KA), ABin("&", ABin("<", AStr(a), KA), ABin(">=", AStr(c2), KA)), ABin("=", AStr(bb), KA), ABin("^=", KA, AStr(a)),
                          ABetween(KA, AStr(ab), AStr(c1)), AIn(KA, <<AStr(a), AStr(dd)>>) } }
C05Multi == {
  Select(<<F(AKey, "k"), F(AVal, "v")>>, ABin("&", ABin("&", ABin(">", KA, AStr(a)), ABin("<", KA, AStr(c2))), ABin("!=", Call1("upper", KA), AStr(<<65, 66>>))), <<>>, <<>>, NoLim),
  Select(<<F(AKey, "k"), F(AVal, "v")>>, ABin("&", ABin("&", ABin(">", KA, AStr(a)), ABin("<", KA, AStr(c2))), ABin("!=", KA, AStr(abc))), <<>>, <<>>, NoLim),
  Select(<<F(AKey, "k"), NV>>, ABin("&", ABin("&", ABin(">", AName("n"), AInt(0)), ABin("<", ABin("+", AName("n"), AInt(1)), AInt(9))), ABin("!=", ABin("*", AName("n"), AInt(2)), AInt(4))), <<>>, <<>>, NoLim),
  Select(<<F(AKey, "k"), F(Call1("sum", Call1("strlen", KA)), "s"), F(Call2("group_concat", Call1("upper", KA), AStr(<<44>>)), "g")>>, ABin("!=", KA, AStr(ab)), <<>>, <<1>>, NoLim),
  Select(<<F(AVal, "v"), F(Call1("sum", Call1("strlen", AName("v"))), "s"), F(Call1("count", AInt(1)), "c")>>, ABin("^=", AName("v"), AStr(<<>>)), <<>>, <<1>>, NoLim),
  \* GROUP BY a name that is defined through another name, under a selective WHERE that uses neither
  Select(<<F(AKey, "k"), F(Call1("upper", KA), "u"), F(Call1("count", AInt(1)), "c")>>, ABin("!=", AVal, AStr(<<50>>)), <<>>, <<1, 2>>, NoLim),
  Select(<<F(ACall("substr", <<AKey, AInt(0), AInt(2)>>), "p"), F(Call1("strlen", AName("p")), "l"), F(Call1("count", AInt(1)), "c"), F(Call1("max", Call1("int", AVal)), "m")>>, ABin("!=", AVal, AStr(<<50>>)), <<>>, <<1, 2>>, NoLim),
  \* the name of an aggregate inside another aggregate field: each group its own value, in both modes, several groups per poll
  Select(<<F(ACall("substr", <<AKey, AInt(0), AInt(1)>>), "p"), F(Call1("count", AInt(1)), "c"), F(ABin("+", Call1("sum", Call1("strlen", AKey)), AName("c")), "t")>>, All, <<>>, <<1>>, NoLim),
  Select(<<F(AVal, "v"), F(Call1("count", AInt(1)), "c"), F(ABin("*", Call1("max", Call1("strlen", AKey)), AName("c")), "t"), F(ABin("-", AName("c"), Call1("min", Call1("strlen", AKey))), "u")>>, ABin("!=", AName("v"), AStr(<<120>>)), <<>>, <<1>>, NoLim) }
C05Cases == { [st |-> st, sid |-> sid] : st \in C05Stmts \cup C05Multi \cup C05LitLeft \cup C05Bare, sid \in {"I", "S7", "S40", "E"} } \cup C05Pt

-----------------------------------------------------------------------------
(* c05k: the cases of the KvCache design model as real statements.  Rows k1..kn with value i; the key condition K
   is `key in (...)`, the alias predicate P is `a in (...)`, the dependent column is a + 0:
       select key, int(value) as a, a + 0 as d where key in (K keys) | a in (P values)                            *)
RECURSIVE StoreK(_)
StoreK(n) == IF n = 0 THEN <<>> ELSE Append(StoreK(n - 1), SP(<<107>> \o Dig(n), Dig(n)))
KeyItems(S) == LET seqS == SelectSeq([i \in 1..5 |-> i], LAMBDA i : i \in S) IN [j \in 1..Len(seqS) |-> AStr(<<107>> \o Dig(seqS[j]))]
ValItems(S) == LET seqS == SelectSeq([i \in 1..5 |-> i], LAMBDA i : i \in S) IN [j \in 1..Len(seqS) |-> AInt(seqS[j])]
KCond(S) == IF S = {} THEN ABin("=", AKey, AStr(<<122, 122>>)) ELSE AIn(AKey, KeyItems(S))
PCond(S) == IF S = {} THEN ABin("=", AName("a"), AInt(0)) ELSE AIn(AName("a"), ValItems(S))
CacheStmt(KS, PS, swap) ==
  Select(<<F(AKey, ""), F(Call1("int", AVal), "a"), F(ABin("+", AName("a"), AInt(0)), "d")>>,
         IF swap THEN ABin("|", PCond(PS), KCond(KS)) ELSE ABin("|", KCond(KS), PCond(PS)), <<>>, <<>>, NoLim)
C05KFor(n) == { [st |-> CacheStmt(KS, PS, swap), sid |-> "K" \o ToString(n)] : KS \in SUBSET (1..n), PS \in SUBSET (1..n), swap \in BOOLEAN }
C05KCases == UNION { C05KFor(n) : n \in 1..(IF Scale >= 2 THEN 5 ELSE 4) }

-----------------------------------------------------------------------------
\* values that are plain patterns for some of the keys (row-dependent regular expressions, prefixes, list items)
StoreR == << SP(a, <<120>>), SP(ab, bb), SP(bb, bb), SP(<<99>>, a), SP(<<99, 97>>, <<99>>), SP(dd, <<122, 122>>), SP(<<100, 97>>, <<94, 100>>), SP(<<101>>, <<101, 36>>) >>
StoreOf(sid) == CASE sid = "R" -> StoreR [] sid = "T" -> StoreT [] sid = "I" -> StoreI [] sid = "F" -> StoreF [] sid = "E" -> <<>>
                  [] sid = "J" -> StoreJ [] sid = "O" -> StoreO [] sid = "M" -> StoreM [] sid = "G" -> StoreG [] sid = "Z" -> StoreZ [] sid = "X" -> StoreX [] sid = "BA" -> StoreBA [] sid = "BG" -> StoreBG [] sid = "B" -> StoreB [] sid = "V" -> StoreV [] sid = "S40" -> SeqStore(40) [] sid = "S7" -> SeqStore(7) [] sid \in {"K" \o ToString(n) : n \in 1..5} -> StoreK(CHOOSE n \in 1..5 : "K" \o ToString(n) = sid) [] sid \in {SizeId(n) : n \in 0..100} -> SeqStore(CHOOSE n \in 0..100 : SizeId(n) = sid) [] OTHER -> <<>>
StoreIds == {"T", "I", "F", "E", "J", "V", "O", "G", "M", "Z", "B", "X", "BA", "BG", "R", "S40", "S7"} \cup {SizeId(n) : n \in SizesSmall \cup SizesBig} \cup {"K" \o ToString(n) : n \in 1..5}

\* c15x: statements whose optimised filter, as EXPLAIN prints it, can be written back in the language (no negative number,
\* no bare Boolean operand): it must be accepted again and select the same rows
C15XCases == { [st |-> Select(<<>>, w, <<>>, <<>>, NoLim), sid |-> "I"] :
                 w \in NumChains \cup { ABin(op, x, y) : op \in {"&", "or"}, x \in NumChains, y \in {ABin("^=", AKey, AStr(a)), ABin(">", ABin("+", IV, AInt(1)), ABin("*", AInt(1), AInt(2)))} }
                      \cup { ABin("=", ABin(o2, ABin(o1, IV, AInt(5)), AInt(2)), AInt(n)) : o1 \in {"+", "-", "*"}, o2 \in {"+", "-", "*"}, n \in {0, 3, 10} }
                      \* a constant comparison beside a real condition, under the symbols and under the words, on either side
                      \cup { ABin(op, x, c) : op \in {"&", "|", "and", "or"}, x \in {ABin("^=", AKey, AStr(a)), ABin(">", IV, AInt(2))}, c \in {ABin("=", AInt(1), AInt(1)), ABin("=", AInt(1), AInt(2))} }
                      \cup { ABin(op, c, x) : op \in {"&", "|", "and", "or"}, x \in {ABin("^=", AKey, AStr(a)), ABin(">", IV, AInt(2))}, c \in {ABin("=", AInt(1), AInt(1)), ABin("=", AInt(1), AInt(2))} } }
Cases == CASE Mode = "c15x" -> C15XCases [] Mode = "c01" -> C01Cases [] Mode = "pt" -> PtCases [] Mode = "c10" -> C10Cases [] Mode = "c04" -> C04Cases [] Mode = "c08" -> C08Select [] Mode = "c08d" -> C08Delete [] Mode = "c07" -> C07Cases [] Mode = "c09" -> C09Cases [] Mode = "c05" -> C05Cases [] Mode = "c05k" -> C05KCases [] OTHER -> {}

\* enumeration is split so that TLC's workers share it: Init picks a partition, Next a case of it
FieldTag(c) == IF Len(c.st.fields) >= 2 THEN <<c.st.fields[2].e.k, c.st.fields[2].e.op, Len(c.st.fields[2].e.a)>> ELSE <<>>
PartOf(c) == <<c.sid, c.st.where.k, c.st.where.op, Len(c.st.fields), Len(c.st.order), c.st.lim.s, FieldTag(c), c.st.kind, c.st.group>>
VARIABLES cs, stage
vars == <<cs, stage>>
Init == stage = 0 /\ cs \in {[part |-> PartOf(c)] : c \in Cases}
Next == stage = 0 /\ stage' = 1 /\ cs' \in {c \in Cases : PartOf(c) = cs.part}

\* the contract is total on the generated space and its answers are well formed
OracleOK ==
  stage = 1 =>
  LET st == cs.st  store == StoreOf(cs.sid)  base == BaseRows(st, store) IN
  /\ SortedStore(store)
  /\ ModelledB(st, store, base) =>
       /\ \A x \in 1..Len(base) : Len(base[x]) = (IF st.fields = <<>> THEN 2 ELSE Len(st.fields))
       /\ st.order = <<>> => SelectOKB(st, base, IF st.lim.has THEN Take(base, st.lim.s, st.lim.n) ELSE base)
  /\ Mode = "c04" =>       \* Design => Contract for the expression optimizer, on every pair of the case's store
       \A x \in 1..Len(store) : /\ Preserves(st.where, store[x])
                                /\ \A f \in 1..Len(st.fields) : Preserves(st.fields[f].e, store[x])
  /\ PrintT(ToJson([kind |-> "case", stmt |-> st, sid |-> cs.sid]))

ASSUME \A sid \in StoreIds : PrintT(ToJson([kind |-> "store", sid |-> sid, store |-> StoreOf(sid)]))
=============================================================================
