-------------------------- MODULE MCRegionClosure --------------------------
(***************************************************************************)
(* C02, deep: the region algebra closed under combination.  A state is an  *)
(* ABSTRACTION of a predicate tree - the design layer's region for it and  *)
(* the contract's satisfying key sets over the order-complete universe     *)
(* (for the opaque atom true / false) - together with a witness tree that  *)
(* is hidden by the VIEW.  Soundness of AND / OR combination depends only  *)
(* on the abstractions of the operands, so exploring                       *)
(*     cur' = Combine(op, cur, atom)   and   Combine(op, atom, cur)        *)
(* from every atom reaches every abstraction a left- or right-deep tree of *)
(* any depth can have, although there are infinitely many such trees.      *)
(* The witness of every distinct abstraction is emitted for replay.        *)
(***************************************************************************)
EXTENDS MCRegion

CONSTANT MaxDepth

VARIABLES tree, st, sat1, sat0, depth
cvars == <<tree, st, sat1, sat0, depth>>
AtomSet == {x \in Atoms : Evaluable(x)}

CInit == /\ e = ABool(TRUE) /\ stage = 2          \* MCRegion's own variables are not used here
         /\ tree \in AtomSet
         /\ st = AtomST(tree) /\ sat1 = SatIdx(tree, TRUE) /\ sat0 = SatIdx(tree, FALSE) /\ depth = 0
Combine(op, leftFirst, x) ==
  LET xs == AtomST(x)  x1 == SatIdx(x, TRUE)  x0 == SatIdx(x, FALSE) IN
  /\ tree' = IF leftFirst THEN ABin(op, tree, x) ELSE ABin(op, x, tree)
  /\ st' = IF op = "&" THEN (IF leftFirst THEN AndST(st, xs) ELSE AndST(xs, st)) ELSE (IF leftFirst THEN OrST(st, xs) ELSE OrST(xs, st))
  /\ sat1' = IF op = "&" THEN sat1 \cap x1 ELSE sat1 \cup x1
  /\ sat0' = IF op = "&" THEN sat0 \cap x0 ELSE sat0 \cup x0
  /\ depth' = depth + 1
CNext == UNCHANGED <<e, stage>> /\ depth < MaxDepth /\ \E op \in {"&", "|"} : \E lf \in BOOLEAN : \E x \in AtomSet : Combine(op, lf, x)

\* the abstraction is exact: the incrementally computed region is the design region of the witness tree
Faithful == st = PlanOf(tree)
SoundAbs == \A i \in sat1 \cup sat0 : InRegion(KeySeq[i], st)
EmitAbs == EmitCases => PrintT(ToJson([kind |-> "case", e |-> tree, s1 |-> sat1, s0 |-> sat0, region |-> RegionJson(st),
                                        pins |-> [i \in 1..Len(Pins(tree)) |-> PinJson(Pins(tree)[i])], unsat |-> FaceUnsat(tree)]))
AbsView == <<st, sat1, sat0>>
=============================================================================
