------------------------------- MODULE MCLexer -------------------------------
(***************************************************************************)
(* All query texts over a token-relevant alphabet up to MaxLen (C16).      *)
(*  (M) DesignMeetsContract: the Split machine produces exactly the        *)
(*      contract's tokens (kind, text, offset) on every well-formed text;  *)
(*      the contract itself satisfies TokenFaithful, Cover and spacing     *)
(*      irrelevance.                                                       *)
(*  (G) Emit: each text with the contract's tokens, for replay against     *)
(*      Lexer.Split of the real engine.                                    *)
(***************************************************************************)
EXTENDS KvLexer, Json

CONSTANTS MaxLen, EmitCases
\* one representative per case class of the Split switch: letters (a, s, A), digit, '.', space, the three quotes,
\* = ! < ^ (two-character operators), + * (arithmetic), &, (, ','
Alpha == {97, 115, 65, 49, 46, SP, SQ, DQ, BT, 61, 33, 60, 94, 43, 42, 38, 40, 44}

VARIABLE text
Init == text = <<>>
Next == Len(text) < MaxLen /\ \E c \in Alpha : text' = Append(text, c)

Check ==
  LET want == Tokenize(text) IN
  /\ Specified(want) =>
       /\ LexSplit(text) = want                      \* Design => Contract
       /\ TokenFaithful(text, want)
       /\ Cover(text, want)
       /\ SpacingIrrelevant(text)
  /\ EmitCases => PrintT(ToJson([kind |-> "case", text |-> text, spec |-> Specified(want), toks |-> want]))
=============================================================================
