------------------------------- MODULE KvAggr -------------------------------
(***************************************************************************)
(* DESIGN layer for C09: hash aggregation (aggregate_plan.go).  Pairs carry *)
(* a tuple of two GROUP BY values (byte strings chosen so that distinct    *)
(* tuples have equal concatenations) and a number.  The machine keeps a    *)
(* map from the group key to the group's accumulators (count, sum, list    *)
(* for group_concat), created by cloning a prototype on first appearance,  *)
(* and the rows in order of first appearance; the optional LIMIT pushed    *)
(* into the node counts GROUPS.                                            *)
(*   Bug_ConcatKey   the key is the plain concatenation of the values      *)
(*   Bug_SharedAcc   accumulators are not cloned per group                 *)
(*   Bug_LimitPairs  the pushed-down limit counts pairs instead of groups  *)
(* CONTRACT: one row per distinct tuple, in first-appearance order, with   *)
(* count / sum / concatenation over exactly that tuple's pairs.            *)
(***************************************************************************)
EXTENDS Integers, Sequences, FiniteSets, TLC
CONSTANTS MaxPairs, Bug_ConcatKey, Bug_SharedAcc, Bug_LimitPairs

G1 == {<<97>>, <<97, 98>>}                 \* 'a', 'ab'
G2 == {<<98, 99>>, <<99>>, <<98>>}         \* 'bc', 'c', 'b'      ('a','bc') and ('ab','c') concatenate alike
Vals == {1, 2}
PairSet == [g1 : G1, g2 : G2, v : Vals]

VARIABLES input, S, C, lim
vars == <<input, S, C, lim>>

\* ---- contract
RECURSIVE DistinctTuples(_, _, _)
DistinctTuples(ps, i, acc) == IF i > Len(ps) THEN acc
                              ELSE LET t == <<ps[i].g1, ps[i].g2>> IN
                                   DistinctTuples(ps, i + 1, IF \E j \in 1..Len(acc) : acc[j] = t THEN acc ELSE Append(acc, t))
RECURSIVE SumOf(_, _)
SumOf(s, i) == IF i > Len(s) THEN 0 ELSE s[i] + SumOf(s, i + 1)
RowOf(ps, t) == LET mine == SelectSeq(ps, LAMBDA p : <<p.g1, p.g2>> = t)
                    vs == [i \in 1..Len(mine) |-> mine[i].v]
                IN [g1 |-> t[1], g2 |-> t[2], cnt |-> Len(mine), sum |-> SumOf(vs, 1), items |-> vs]
Take(s, off, n) == SubSeq(s, off + 1, IF off + n > Len(s) THEN Len(s) ELSE off + n)
Expected(ps) == LET ts == DistinctTuples(ps, 1, <<>>)
                    rows == [i \in 1..Len(ts) |-> RowOf(ps, ts[i])]
                IN IF lim THEN Take(rows, S, C) ELSE rows

\* ---- design
KeyOf(p) == IF Bug_ConcatKey THEN p.g1 \o p.g2 ELSE <<Len(p.g1), 58>> \o p.g1 \o <<Len(p.g2), 58>> \o p.g2
RECURSIVE Aggregate(_, _, _, _)
\* groups: sequence of [key, g1, g2, acc] ; accs: the accumulator store (index -> [cnt, sum, items]); shared accumulator = index 1
Aggregate(ps, i, groups, accs) ==
  IF i > Len(ps) THEN [groups |-> groups, accs |-> accs]
  ELSE LET p == ps[i]  k == KeyOf(p)
           pos == IF \E g \in 1..Len(groups) : groups[g].key = k THEN CHOOSE g \in 1..Len(groups) : groups[g].key = k ELSE 0
           fresh == [cnt |-> 0, sum |-> 0, items |-> <<>>]
           groups2 == IF pos = 0 THEN Append(groups, [key |-> k, g1 |-> p.g1, g2 |-> p.g2,
                                                      acc |-> IF Bug_SharedAcc THEN 1 ELSE Len(accs) + 1]) ELSE groups
           accs1 == IF pos = 0 /\ (~Bug_SharedAcc \/ accs = <<>>) THEN Append(accs, fresh) ELSE accs
           a == groups2[IF pos = 0 THEN Len(groups2) ELSE pos].acc
           accs2 == [accs1 EXCEPT ![a] = [cnt |-> @.cnt + 1, sum |-> @.sum + p.v, items |-> Append(@.items, p.v)]]
       IN Aggregate(ps, i + 1, groups2, accs2)
RowsOf(ps) ==
  LET r == Aggregate(ps, 1, <<>>, <<>>) IN
  [g \in 1..Len(r.groups) |-> [g1 |-> r.groups[g].g1, g2 |-> r.groups[g].g2, cnt |-> r.accs[r.groups[g].acc].cnt,
                                sum |-> r.accs[r.groups[g].acc].sum, items |-> r.accs[r.groups[g].acc].items]]
Output(ps) == IF ~lim THEN RowsOf(ps)
              ELSE IF Bug_LimitPairs THEN RowsOf(Take(ps, S, C))        \* the slice taken over scanned pairs
              ELSE Take(RowsOf(ps), S, C)                               \* the slice taken over groups

Init == /\ \E n \in 0..MaxPairs : input \in [1..n -> PairSet]
        /\ lim \in BOOLEAN /\ S \in 0..2 /\ C \in 0..3
Next == UNCHANGED vars
Correct == Output(input) = Expected(input)
=============================================================================
