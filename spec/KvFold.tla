------------------------------- MODULE KvFold -------------------------------
(***************************************************************************)
(* DESIGN layer for C04: the expression optimizer (expression_optimizer.go)*)
(*   Reorder   tryReorderBinaryOp      (x op c1) op c2 -> x op (c1 op c2)  *)
(*   FoldBin   tryOptimizeBinaryOpExecute  literal op literal -> literal   *)
(*   AndOr     tryOptimizeAndOr        true & x -> x, x | true -> true ... *)
(*   FoldCall  tryOptimizeFunctionCall f(literals) -> literal              *)
(*   Optimize  = optimize applied twice                                    *)
(* Constant sub-expressions are computed with the contract evaluator, so   *)
(* what is checked is the rewriting itself: which nodes are replaced, in   *)
(* which order constants are regrouped, which kind the new literal gets.   *)
(* Bug_LeftKind re-wraps a folded value by the kind of its LEFT operand;   *)
(* Bug_SwapReorder regroups the constants in the wrong order.              *)
(***************************************************************************)
EXTENDS KvEval

CONSTANTS Bug_LeftKind, Bug_SwapReorder

IsValueLit(e) == e.k \in {"str", "int", "flt"}
IsLit(e) == e.k \in {"str", "int", "flt", "bool"}
NoPair == Pair(<<>>, <<>>)

\* a literal node for a computed value, or the marker kind "none"
LitOf(v) == CASE v.t = "s" -> AStr(v.s) [] v.t = "i" -> AInt(v.n) [] v.t = "f" -> AFlt(v.n, v.d) [] v.t = "b" -> ABool(v.n = 1)
              [] OTHER -> N("none", "", <<>>, 0, 0, <<>>)
\* historic defect: the result takes the kind of the left literal (3 * 0.5 -> integer 1)
LeftKind(l, v) == IF ~Bug_LeftKind \/ ~IsNum(v) THEN LitOf(v)
                  ELSE IF l.k = "int" THEN (IF v.t = "f" THEN AInt(v.n \div Pow2(v.d)) ELSE LitOf(v))
                  ELSE IF l.k = "flt" THEN AFlt(v.n, NumD(v))
                  ELSE LitOf(v)

RECURSIVE AllValues(_, _)
AllValues(e, op) == e.k = "bin" /\ e.op = op /\ (IsValueLit(e.a[1]) \/ AllValues(e.a[1], op)) /\ (IsValueLit(e.a[2]) \/ AllValues(e.a[2], op))

RECURSIVE Reorder(_)
Reorder(e) ==
  IF e.k # "bin" THEN e
  ELSE LET l == Reorder(e.a[1])  r == Reorder(e.a[2]) IN
       IF e.op \in {"+", "*"} /\ l.k = "bin" /\ IsValueLit(r) /\ l.op = e.op /\ (IsValueLit(l.a[2]) \/ AllValues(l.a[2], e.op))
       THEN ABin(e.op, l.a[1], IF Bug_SwapReorder THEN ABin(e.op, r, l.a[2]) ELSE ABin(e.op, l.a[2], r))
       ELSE ABin(e.op, l, r)

RECURSIVE FoldBin(_), FoldCall(_), Opt1(_)
FoldBin(e) ==
  LET l == IF e.a[1].k = "bin" THEN FoldBin(e.a[1]) ELSE IF e.a[1].k = "call" THEN FoldCall(e.a[1]) ELSE e.a[1]
      r == IF e.a[2].k = "bin" THEN FoldBin(e.a[2]) ELSE IF e.a[2].k = "call" THEN FoldCall(e.a[2]) ELSE e.a[2]
      e2 == ABin(e.op, l, r)
  IN IF ~(IsLit(l) /\ IsLit(r)) THEN e2
     ELSE IF e.op \in MathOps \cup {"&", "|", "=", "!=", ">", ">=", "<", "<="} THEN
          LET v == Eval(e2, NoPair, <<>>)  lit == LeftKind(l, v) IN IF IsBad(v) \/ lit.k = "none" THEN e2 ELSE lit
     ELSE e2
FoldCall(e) ==
  LET args == [i \in 1..Len(e.a) |-> Opt1(e.a[i])]
      e2 == ACall(e.op, args)
  IN IF (\A i \in 1..Len(args) : IsLit(args[i])) /\ e.op \notin {"json", "count", "sum", "avg", "min", "max", "group_concat", "json_arrayagg", "quantile"}
     THEN LET v == Eval(e2, NoPair, <<>>)  lit == LitOf(v) IN IF IsBad(v) \/ lit.k = "none" \/ v.t = "l" THEN e2 ELSE lit
     ELSE e2
AndOr(e) ==
  IF e.k # "bin" \/ e.op \notin {"&", "|"} THEN e
  ELSE LET l == e.a[1]  r == e.a[2] IN
       IF l.k = "bool" /\ r.k # "bool" THEN (IF e.op = "&" THEN (IF l.n = 1 THEN r ELSE ABool(FALSE)) ELSE (IF l.n = 1 THEN ABool(TRUE) ELSE r))
       ELSE IF r.k = "bool" /\ l.k # "bool" THEN (IF e.op = "&" THEN (IF r.n = 1 THEN l ELSE ABool(FALSE)) ELSE (IF r.n = 1 THEN ABool(TRUE) ELSE l))
       ELSE IF l.k = "bool" /\ r.k = "bool" THEN (IF e.op = "&" THEN ABool(l.n = 1 /\ r.n = 1) ELSE ABool(l.n = 1 \/ r.n = 1))
       ELSE e
Opt1(e) == IF e.k = "bin" THEN AndOr(FoldBin(Reorder(e))) ELSE IF e.k = "call" THEN FoldCall(e) ELSE e
Optimize(e) == Opt1(Opt1(e))

\* C04 on one pair: wherever the original evaluates, the rewritten expression has the same value of the same kind
Preserves(e, p) == LET v == Eval(e, p, <<>>) IN IsBad(v) \/ Eval(Optimize(e), p, <<>>) = v
=============================================================================
