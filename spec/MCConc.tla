------------------------------- MODULE MCConc -------------------------------
(* Instances of KvConc for TLC: (M) all interleavings with the schedule hidden by a VIEW;
   (G) the same with the schedule in the state so that every distinct interleaving is a
   distinct behaviour, emitted at its end for replay on goroutines over a gated storage. *)
EXTENDS KvConc, Json
CONSTANT EmitCases
PoolDef == { Sel(1, 2), Sel(2, 4), Get(<<1, 3>>), Put(4, 9), Put(1, 7), Del(3, 4), Del(1, 2) }
KeysDef == 1..4
AllStores == SUBSET KeysDef
FewStores == {{1, 2, 3, 4}, {1, 3}}
OneStore == {{1, 2, 3, 4}}
SmallPool == { Sel(1, 2), Get(<<1, 3>>), Put(4, 9), Del(3, 4) }
StmtJson(st) == [kind |-> st.kind, lo |-> st.lo, hi |-> st.hi, ks |-> st.ks, k |-> st.k, v |-> st.v]
Emit == (EmitCases /\ AllDone) =>
          PrintT(ToJson([kind |-> "case", store |-> store0, stmts |-> [p \in 1..NSess |-> StmtJson(sess[p].st)], sched |-> sched, b |-> B]))
=============================================================================
