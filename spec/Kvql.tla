-------------------------------- MODULE Kvql --------------------------------
(***************************************************************************)
(* SYSTEM layer with faults (C13): the KvConc machine - sessions whose     *)
(* every storage call is one atomic step on the shared store - extended    *)
(* with single-fault injection: the `fault`-th storage call of the run     *)
(* (counted globally) returns an error instead of taking effect.           *)
(*   StopAtFault     the session whose call failed issues no further call  *)
(*   ErrorSurfaces   it ends "failed" (the error is returned to its caller *)
(*                   instead of rows or end-of-stream)                     *)
(*   ReadOnly        only PUT / DELETE sessions ever change the store      *)
(*   NoInterference  the other sessions still return what they return      *)
(*                   alone                                                 *)
(* Bug_SwallowErr models `return nil, nil` on a storage error.             *)
(***************************************************************************)
EXTENDS KvConc

CONSTANTS MaxFault, Bug_SwallowErr
VARIABLES fault, ncalls, faultP
fvars == <<vars, fault, ncalls, faultP>>

FInit == Init /\ fault \in 0..MaxFault /\ ncalls = 0 /\ faultP = 0
Faulty == fault # 0 /\ ncalls + 1 = fault
Running(p) == sess[p].ph \notin {"done", "failed"}
FStep(p) ==
  /\ Running(p) /\ ncalls' = ncalls + 1 /\ UNCHANGED fault
  /\ IF Faulty THEN /\ sess' = [sess EXCEPT ![p].ph = IF Bug_SwallowErr THEN "done" ELSE "failed"]
                    /\ sched' = Append(sched, p) /\ faultP' = p /\ UNCHANGED <<store, store0>>
     ELSE Step(p) /\ UNCHANGED faultP
FNext == \E p \in 1..NSess : FStep(p)
FSpec == FInit /\ [][FNext]_fvars /\ WF_fvars(FNext)

ErrorSurfaces == (fault # 0 /\ ncalls >= fault) => sess[faultP].ph = "failed"
StopAtFault == [][\A p \in 1..NSess : sess[p].ph = "failed" => sess'[p] = sess[p]]_fvars
ReadOnly == [][store' # store => \E p \in 1..NSess : Writer(sess[p].st) /\ sess'[p] # sess[p]]_fvars
\* sessions that did not fail themselves are unaffected by another session's fault (independence)
FNoInterference == \A p \in 1..NSess : sess[p].ph = "done" /\ faultP # p => sess[p].out = Alone(sess[p].st, store0)
FTermination == <>(\A p \in 1..NSess : ~Running(p))
FView == <<store, store0, sess, fault, ncalls, faultP>>
=============================================================================
