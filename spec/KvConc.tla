------------------------------- MODULE KvConc -------------------------------
(***************************************************************************)
(* SYSTEM layer for C19: NSess sessions, each planning and draining its own    *)
(* statement on its own goroutine, sharing nothing but a thread-safe store *)
(* whose operations are atomic.  Every storage call of a session is one    *)
(* step, so TLC explores every interleaving at exactly the granularity at  *)
(* which the storage serialises the sessions.                              *)
(*                                                                         *)
(* Statements (keys are integers here; the harness maps k to "kNN"):       *)
(*   sel(lo,hi)  select * where key between lo and hi     (row-at-a-time)  *)
(*   get(ks)     select * where key in (ks)               (point reads)    *)
(*   put(k,v)    put (k, v)                                                *)
(*   del(lo,hi)  delete where key between lo and hi       (batches of B)   *)
(* The call structure follows the engine: BuildPlan initialises the scan   *)
(* twice (Cursor, Seek, Cursor, Seek); a range scan reads until the first  *)
(* key past its end; DELETE alternates filling a batch and BatchDelete.    *)
(***************************************************************************)
EXTENDS Integers, Sequences, FiniteSets, TLC

KV(k, v) == [k |-> k, v |-> v]

CONSTANTS NSess,    \* number of sessions
          KeySet,     \* set of integer keys
          B,        \* delete batch size
          Pool,     \* set of statements the sessions draw from
          StoreSets \* the initial stores: a set of key sets

Sel(lo, hi) == [kind |-> "sel", lo |-> lo, hi |-> hi, ks |-> <<>>, k |-> 0, v |-> 0]
Get(ks)     == [kind |-> "get", lo |-> 0, hi |-> 0, ks |-> ks, k |-> 0, v |-> 0]
Put(k, v)   == [kind |-> "put", lo |-> 0, hi |-> 0, ks |-> <<>>, k |-> k, v |-> v]
Del(lo, hi) == [kind |-> "del", lo |-> lo, hi |-> hi, ks |-> <<>>, k |-> 0, v |-> 0]

\* the store is a sequence of [k, v] in ascending key order (KvStore with integer keys)
IPut(m, k, v) == IF \E i \in 1..Len(m) : m[i].k = k THEN [i \in 1..Len(m) |-> IF m[i].k = k THEN KV(k, v) ELSE m[i]]
                 ELSE LET p == Cardinality({i \in 1..Len(m) : m[i].k < k}) + 1 IN SubSeq(m, 1, p - 1) \o <<KV(k, v)>> \o SubSeq(m, p, Len(m))
IDel(m, ks) == SelectSeq(m, LAMBDA x : \A i \in 1..Len(ks) : ks[i] # x.k)
ISeek(snap, k) == Cardinality({i \in 1..Len(snap) : snap[i].k < k}) + 1

\* key sets a statement reads / writes
Touches(st) == CASE st.kind \in {"sel", "del"} -> {k \in KeySet : st.lo <= k /\ k <= st.hi}
                 [] st.kind = "get" -> {st.ks[i] : i \in 1..Len(st.ks)}
                 [] OTHER -> {st.k}
Writer(st) == st.kind \in {"put", "del"}
\* independent: any number of readers, writers pairwise disjoint from everything they run with
Independent(ss) == \A p \in 1..NSess : \A q \in 1..NSess : (p # q /\ (Writer(ss[p]) \/ Writer(ss[q]))) => Touches(ss[p]) \cap Touches(ss[q]) = {}

\* what each statement returns when run alone on store s0 (CONTRACT)
Alone(st, s0) == CASE st.kind = "sel" -> SelectSeq(s0, LAMBDA x : st.lo <= x.k /\ x.k <= st.hi)
                   [] st.kind = "get" -> SelectSeq(s0, LAMBDA x : \E i \in 1..Len(st.ks) : st.ks[i] = x.k)
                   [] st.kind = "put" -> <<KV(1, 1)>>                                            \* one row: the count
                   [] OTHER -> <<KV(Len(SelectSeq(s0, LAMBDA x : st.lo <= x.k /\ x.k <= st.hi)), 0)>>
Effect(st, s) == CASE st.kind = "put" -> IPut(s, st.k, st.v)
                   [] st.kind = "del" -> SelectSeq(s, LAMBDA x : ~(st.lo <= x.k /\ x.k <= st.hi))
                   [] OTHER -> s
RECURSIVE Sequential(_, _, _)
Sequential(ss, s, p) == IF p > NSess THEN s ELSE Sequential(ss, Effect(ss[p], s), p + 1)

VARIABLES store, store0, sess, sched
vars == <<store, store0, sess, sched>>

S0(st) == [st |-> st, ph |-> IF st.kind \in {"sel", "del"} THEN "cursor1" ELSE "run", snap |-> <<>>, pos |-> 1, buf |-> <<>>, gi |-> 1, out |-> <<>>, ndel |-> 0]

StoreOver(ks) == [i \in 1..Cardinality(ks) |-> KV(CHOOSE k \in ks : Cardinality({j \in ks : j < k}) = i - 1, 5)]
Init == /\ \E ks \in StoreSets : store = StoreOver(ks)
        /\ store0 = store
        /\ sess \in {f \in [1..NSess -> {S0(st) : st \in Pool}] : Independent([p \in 1..NSess |-> f[p].st])}
        /\ sched = <<>>

Upd(p, r) == sess' = [sess EXCEPT ![p] = r] /\ sched' = Append(sched, p)

\* ---- storage calls of session p ----
Cursor(p) == LET s == sess[p] IN
  /\ s.ph \in {"cursor1", "cursor2"}
  /\ Upd(p, [s EXCEPT !.snap = store, !.pos = 1, !.ph = IF s.ph = "cursor1" THEN "seek1" ELSE "seek2"])
  /\ UNCHANGED <<store, store0>>
Seek(p) == LET s == sess[p] IN
  /\ s.ph \in {"seek1", "seek2"}
  /\ Upd(p, [s EXCEPT !.pos = ISeek(s.snap, s.st.lo), !.ph = IF s.ph = "seek1" THEN "cursor2" ELSE "run"])
  /\ UNCHANGED <<store, store0>>
\* one cursor Next of a row-at-a-time range select
SelNext(p) == LET s == sess[p] IN
  /\ s.ph = "run" /\ s.st.kind = "sel"
  /\ IF s.pos > Len(s.snap) THEN Upd(p, [s EXCEPT !.ph = "done"])
     ELSE IF s.snap[s.pos].k > s.st.hi THEN Upd(p, [s EXCEPT !.ph = "done", !.pos = s.pos + 1])
     ELSE Upd(p, [s EXCEPT !.out = Append(s.out, s.snap[s.pos]), !.pos = s.pos + 1])
  /\ UNCHANGED <<store, store0>>
\* one point read
GetOne(p) == LET s == sess[p] IN
  /\ s.ph = "run" /\ s.st.kind = "get"
  /\ LET k == s.st.ks[s.gi]
         found == \E i \in 1..Len(store) : store[i].k = k
         o2 == IF found THEN Append(s.out, CHOOSE x \in {store[i] : i \in 1..Len(store)} : x.k = k) ELSE s.out
     IN Upd(p, [s EXCEPT !.out = o2, !.gi = s.gi + 1, !.ph = IF s.gi = Len(s.st.ks) THEN "done" ELSE "run"])
  /\ UNCHANGED <<store, store0>>
PutOne(p) == LET s == sess[p] IN
  /\ s.ph = "run" /\ s.st.kind = "put"
  /\ store' = IPut(store, s.st.k, s.st.v)
  /\ Upd(p, [s EXCEPT !.out = <<KV(1, 1)>>, !.ph = "done"])
  /\ UNCHANGED store0
\* DELETE: fill a batch with cursor reads ...
DelNext(p) == LET s == sess[p] IN
  /\ s.ph = "run" /\ s.st.kind = "del"
  /\ LET atEnd == s.pos > Len(s.snap)
         beyond == ~atEnd /\ s.snap[s.pos].k > s.st.hi
     IN IF atEnd \/ beyond
        THEN Upd(p, [s EXCEPT !.pos = IF beyond THEN s.pos + 1 ELSE s.pos,
                              !.ph = IF s.buf = <<>> THEN "done" ELSE "flush",
                              !.out = IF s.buf = <<>> THEN <<KV(s.ndel, 0)>> ELSE s.out])
        ELSE LET nb == Append(s.buf, s.snap[s.pos].k) IN
             Upd(p, [s EXCEPT !.buf = nb, !.pos = s.pos + 1, !.ph = IF Len(nb) >= B THEN "flush" ELSE "run"])
  /\ UNCHANGED <<store, store0>>
\* ... then BatchDelete it
DelFlush(p) == LET s == sess[p] IN
  /\ s.ph = "flush"
  /\ store' = IDel(store, s.buf)
  /\ Upd(p, [s EXCEPT !.ndel = s.ndel + Len(s.buf), !.buf = <<>>, !.ph = "run"])
  /\ UNCHANGED store0

Step(p) == Cursor(p) \/ Seek(p) \/ SelNext(p) \/ GetOne(p) \/ PutOne(p) \/ DelNext(p) \/ DelFlush(p)
Next == \E p \in 1..NSess : Step(p)
Spec == Init /\ [][Next]_vars /\ WF_vars(Next)

AllDone == \A p \in 1..NSess : sess[p].ph = "done"
\* C19: each statement returns exactly what it returns when run alone; the store ends as after any sequential run
NoInterference == \A p \in 1..NSess : sess[p].ph = "done" => sess[p].out = Alone(sess[p].st, store0)
FinalStore == AllDone => store = Sequential([p \in 1..NSess |-> sess[p].st], store0, 1)
\* ownership: a session only ever changes its own record (and the store through the storage interface)
Owned == [][\A p \in 1..NSess : sess'[p] # sess[p] => sched' = Append(sched, p)]_vars
Termination == <>AllDone
View == <<store, store0, sess>>
=============================================================================
