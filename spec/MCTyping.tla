------------------------------ MODULE MCTyping ------------------------------
(***************************************************************************)
(* C14: well-typed statements from a typed grammar and ALL their single-   *)
(* fault mutants (KvTyping!Mutants: the fault placed at every syntactic    *)
(* position).  (M) every original is well-typed and every mutant ill-typed *)
(* under the contract judgement; (G) each is emitted for the harness.      *)
(***************************************************************************)
EXTENDS KvTyping, Json

CONSTANT Scale

a == <<97>>  bb == <<98>>  AB == <<65, 66>>  Comma == <<44>>  xx == <<120>>
Call1(f, x) == ACall(f, <<x>>)
Call2(f, x, y) == ACall(f, <<x, y>>)
NoLim == [has |-> FALSE, s |-> 0, n |-> 0]
Stmt(kind, fields, where, pairs, keys) ==
  [kind |-> kind, fields |-> fields, where |-> where, order |-> <<>>, group |-> <<>>, lim |-> NoLim, pairs |-> pairs, keys |-> keys]
F(e, nm) == [e |-> e, nm |-> nm]
PP(k, v) == [k |-> k, v |-> v]

SplitV == Call2("split", AVal, AStr(Comma))
P1 == ABin("^=", AKey, AStr(a))
P2 == ABin("=", Call1("upper", AVal), AStr(AB))
P3 == ABin(">", Call1("int", AVal), AInt(1))
P4 == ABin("<=", ABin("+", Call1("strlen", AKey), AInt(1)), ABin("*", AInt(2), AInt(3)))
P5 == AIn(AKey, <<AStr(a), AStr(bb)>>)
P6 == ABetween(Call1("int", AVal), AInt(1), AInt(5))
P7 == Call1("is_int", AVal)
P8 == ABin("~=", ABin("+", AKey, AStr(xx)), AStr(<<94, 97>>))
P9 == ABin("in", AStr(bb), SplitV)
P10 == ABin("=", AIdx(SplitV, AInt(0)), AStr(a))
P11 == ABin(">=", Call1("len", SplitV), AInt(1))
P12 == ABin("<", Call2("l2_distance", ACall("list", <<AInt(1), AInt(2)>>), ACall("list", <<AInt(3), AInt(4)>>)), AFlt(7, 1))
P13 == ABin("!=", ACall("substr", <<AKey, AInt(0), AInt(1)>>), AStr(a))
P14 == ABin("=", ACall("join", <<AStr(Comma), AKey, AInt(1)>>), AStr(<<97, 44, 49>>))
P15 == ABin("=", Call1("float", AVal), AFlt(3, 1))
P16 == AIn(Call1("strlen", AVal), <<AInt(1), ABin("+", AInt(1), AInt(1))>>)
P17 == ABetween(AKey, AStr(a), ABin("+", AStr(bb), AStr(xx)))
PJ == ABin("=", AIdx(Call1("json", AVal), AStr(a)), AStr(xx))
\* a cascaded (two-level) field access: a fault inside its base must still be found
PJ2 == ABin("=", AIdx(AIdx(Call1("json", ABin("+", AVal, AStr(<<>>))), AStr(a)), AStr(bb)), AStr(xx))
PJ3 == ABin("=", AIdx(AIdx(Call1("json", Call1("lower", AVal)), AStr(a)), AInt(0)), AStr(xx))
\* the FIRST list element and the LOWER bound carry an operator (a fault inside them keeps their nominal type)
P18 == AIn(AKey, <<ABin("+", AStr(a), AStr(bb)), AStr(bb)>>)
P19 == ABetween(Call1("int", AVal), ABin("-", AInt(3), AInt(2)), AInt(5))
P20 == AIn(Call1("strlen", AKey), <<ABin("*", AInt(1), AInt(2)), AInt(3)>>)
\* an integer compared with a float constant for (in)equality: numbers are one type, the row-at-a-time twin included
P21 == ABin("=", Call1("int", AVal), AFlt(2, 0))
P22 == ABin("!=", Call1("strlen", AKey), AFlt(3, 1))
P23 == ABin("=", AFlt(2, 0), Call1("int", AVal))
\* ordering between two operands of one unsupported type (two lists, two documents, two Booleans): no single leaf is wrong, the operator is
PairFaults == { ABin(op, x, y) : op \in {"<", "<=", ">", ">="},
                  x \in {SplitV}, y \in {Call2("split", AKey, AStr(Comma)), ACall("list", <<AInt(1), AInt(2)>>)} }
              \cup { ABin(op, Call1("json", AVal), Call1("json", AKey)) : op \in {"<", ">="} }
              \cup { ABin(op, Call1("is_int", AVal), Call1("is_int", AKey)) : op \in {"<", ">="} }
Atoms == {P21, P22, P23, P18, P19, P20, P1, P2, P3, P4, P5, P6, P7, P8, P9, P10, P11, P12, P13, P14, P15, P16, P17}
SmallP == IF Scale >= 2 THEN {P1, P3, P5, P7, P10, P2} ELSE {P1, P3, P7}
Wheres == Atoms \cup {PJ, PJ2, PJ3} \cup {ANot(p) : p \in Atoms}
          \cup {ANot(ANot(p)) : p \in {P1, P3, P7}} \cup {ABin("&", P1, ANot(ANot(P7)))}      \* stacked negations
          \cup {ABin(op, p, q) : op \in {"&", "or"}, p \in SmallP, q \in SmallP}
          \cup {ABin("and", ANot(p), ABin("|", q, ANot(p))) : p \in SmallP, q \in SmallP}
          \cup {ABin(op, ANot(p), q) : op \in {"&", "|", "and", "or"}, p \in {P1, P3}, q \in {P7, P2}}
          \cup {ABin(op, p, ANot(q)) : op \in {"&", "|", "and", "or"}, p \in {P1, P7}, q \in {P3}}
          \* constant comparisons that fold to the absorbing value of the connective: the rest of the clause must still be checked
          \cup {ABin(op, c, p) : op \in {"|", "or"}, c \in {ABin("=", AInt(1), AInt(1))}, p \in {P2, P3, P11, P13}}
          \cup {ABin(op, c, p) : op \in {"&", "and"}, c \in {ABin(">", AInt(1), AInt(2))}, p \in {P2, P3, P11, P13}}
          \cup {ABin(op, p, c) : op \in {"|", "&"}, c \in {ABin("=", AStr(a), AStr(a)), ABin("=", AStr(a), AStr(bb))}, p \in {P2, P14}}

Fields == { <<F(AKey, ""), F(ABin("+", Call1("int", AVal), AInt(1)), "n")>>, <<F(Call1("upper", AKey), ""), F(Call1("str", Call1("strlen", AVal)), "")>>,
            <<F(AIdx(SplitV, AInt(0)), "h"), F(P3, "big")>>, <<F(ACall("join", <<AStr(Comma), AKey, AVal>>), "j")>> }
\* a chain of select fields each built on the name before it (text + text stays text, whatever is resolved first)
ChainFields == { <<F(AKey, "s"), F(ABin("+", AName("s"), AStr(xx)), "t"), F(ABin("+", AName("t"), AStr(a)), "u")>>,
                 <<F(AKey, "s"), F(ABin("+", AName("s"), AStr(xx)), "t"), F(Call1("upper", ABin("+", AName("t"), AStr(a))), "u")>>,
                 <<F(Call1("strlen", AKey), "n"), F(ABin("+", AName("n"), AInt(1)), "m"), F(ABin("*", AName("m"), AInt(2)), "d")>> }
Selects == { Stmt("select", <<>>, w, <<>>, <<>>) : w \in Wheres }
           \cup { Stmt("select", f, w, <<>>, <<>>) : f \in ChainFields, w \in {P1} }
           \cup { Stmt("select", <<F(AKey, ""), F(AIdx(AIdx(Call1("json", AVal), AStr(a)), AStr(bb)), "jj")>>, P1, <<>>, <<>>) }
           \* aggregates: a fault inside an aggregate's argument is a fault like any other
           \cup { Stmt("select", <<F(Call1("count", AInt(1)), ""), F(Call1("sum", Call1("int", AVal)), "s"), F(ACall("group_concat", <<Call1("upper", AKey), AStr(Comma)>>), "g")>>, P1, <<>>, <<>>),
                   Stmt("select", <<F(Call1("max", Call1("strlen", ABin("+", AKey, AStr(xx)))), ""), F(Call1("avg", Call1("float", AVal)), "")>>, P7, <<>>, <<>>) }
           \* aggregates: a fault inside an aggregate's argument is a fault like any other
           \cup { Stmt("select", <<F(Call1("count", AInt(1)), ""), F(Call1("sum", Call1("int", AVal)), "s"), F(ACall("group_concat", <<Call1("upper", AKey), AStr(Comma)>>), "g")>>, P1, <<>>, <<>>),
                   Stmt("select", <<F(Call1("max", Call1("strlen", ABin("+", AKey, AStr(xx)))), ""), F(Call1("avg", Call1("float", AVal)), "")>>, P7, <<>>, <<>>) }
           \* one name used three and four times in WHERE (every use typed alike, in both iteration modes)
           \cup { Stmt("select", <<F(AKey, ""), F(Call1("strlen", AVal), "v")>>, ABin("&", ABin("&", ABin(">", AName("v"), AInt(0)), ABin("<", AInt(1), ABin("*", AName("v"), AInt(2)))), ABin("<", AName("v"), AInt(8))), <<>>, <<>>),
                   Stmt("select", <<F(AKey, "k"), F(AVal, "")>>, ABin("&", ABin("&", ABin(">", AName("k"), AStr(<<>>)), ABin("!=", Call1("upper", AName("k")), AStr(AB))), ABin("|", ABin("^=", AName("k"), AStr(a)), ABin("=", ABin("+", AName("k"), AStr(xx)), AStr(xx)))), <<>>, <<>>) }
           \* (a name built on another name is not typed inside WHERE by the engine's checker: such statements are refused, DESIGN.md 0.4)
           \cup { Stmt("select", f, w, <<>>, <<>>) : f \in Fields, w \in {P1, P9, ANot(P3)} }
           \cup { Stmt("select", <<F(AKey, ""), F(Call1("int", AVal), "n")>>, ABin("&", ABin(">", AName("n"), AInt(1)), P1), <<>>, <<>>) }
Deletes == { Stmt("delete", <<>>, w, <<>>, <<>>) : w \in {P1, P3, ABin("&", P5, P7), ANot(P2)} }
PutKeys == { AStr(a), ABin("+", AStr(a), AStr(bb)), Call1("upper", AStr(a)), AInt(7) }
PutVals == { AStr(xx), AIdx(AIdx(Call1("json", ABin("+", AStr(<<123, 125>>), AKey)), AStr(a)), AStr(bb)), ABin("+", AStr(xx), AKey), Call1("upper", ABin("+", AStr(xx), AKey)), Call1("strlen", AKey), ACall("join", <<AStr(Comma), AKey, AInt(1)>>) }
Puts == { Stmt("put", <<>>, ABool(TRUE), <<PP(k, v)>>, <<>>) : k \in PutKeys, v \in PutVals }
        \cup { Stmt("put", <<>>, ABool(TRUE), <<PP(AStr(a), AStr(xx)), PP(k, v)>>, <<>>) : k \in {AStr(bb)}, v \in PutVals }
Removes == { Stmt("remove", <<>>, ABool(TRUE), <<>>, <<k>>) : k \in PutKeys } \cup { Stmt("remove", <<>>, ABool(TRUE), <<>>, <<AStr(a), Call1("lower", AStr(AB))>>) }
Originals == Selects \cup Deletes \cup Puts \cup Removes

\* keyword faults: `value` inside PUT, `key` / `value` inside REMOVE - the keyword replaces a string leaf at any depth
RECURSIVE KwFaults(_, _)
KwFaults(e, kw) == (IF e.k \in {"str", "key"} THEN {kw} ELSE {})
                   \cup UNION { {[e EXCEPT !.a = [e.a EXCEPT ![i] = m]] : m \in KwFaults(e.a[i], kw)} : i \in 1..Len(e.a) }

StmtMutants(st) ==
  CASE st.kind \in {"select", "delete"} ->
         LET c == Ctx(FALSE, FALSE)  env == EnvTypes(st, c) IN
         {[st EXCEPT !.where = m] : m \in Mutants(st.where, c, env) \cup WrongLeaves("B") \cup {AKey}}
         \cup (IF st.where = P1 THEN {[st EXCEPT !.where = m] : m \in PairFaults \cup {ABin("&", P1, f) : f \in PairFaults} \cup {ANot(f) : f \in PairFaults}} ELSE {})
         \cup UNION { {[st EXCEPT !.fields[i].e = m] : m \in Mutants(st.fields[i].e, c, env)
                                                       \cup (IF TypeOf(st.fields[i].e, c, env) \in {"S", "N"} THEN {ANot(st.fields[i].e), ANot(ANot(st.fields[i].e))} ELSE {})}
                     : i \in 1..Len(st.fields) }
    [] st.kind = "put" ->
         UNION { {[st EXCEPT !.pairs[i].k = m] : m \in Mutants(st.pairs[i].k, Ctx(FALSE, TRUE), <<>>) \cup KwFaults(st.pairs[i].k, AVal) \cup {ABool(TRUE), ANot(st.pairs[i].k), ANot(ANot(st.pairs[i].k))}}
                 \cup {[st EXCEPT !.pairs[i].v = m] : m \in Mutants(st.pairs[i].v, Ctx(FALSE, TRUE), <<>>) \cup KwFaults(st.pairs[i].v, AVal) \cup {ABool(TRUE), ANot(st.pairs[i].v), ANot(ANot(st.pairs[i].v))}}
                 : i \in 1..Len(st.pairs) }
    [] st.kind = "remove" ->
         UNION { {[st EXCEPT !.keys[i] = m] : m \in Mutants(st.keys[i], Ctx(TRUE, TRUE), <<>>) \cup KwFaults(st.keys[i], AKey) \cup KwFaults(st.keys[i], AVal) \cup {ABool(FALSE), ANot(st.keys[i]), ANot(ANot(st.keys[i]))}}
                 : i \in 1..Len(st.keys) }
    [] OTHER -> {}

VARIABLES st, mutant, stage
Init == stage = 0 /\ mutant = FALSE /\ st \in Originals
Next == stage = 0 /\ stage' = 1 /\ mutant' = TRUE /\ st' \in StmtMutants(st)

Check ==
  /\ mutant = FALSE => WellTypedStmt(st)          \* the grammar only produces statements the judgement allows
  /\ mutant = TRUE => ~WellTypedStmt(st)          \* every kept mutant is ill-typed
  /\ PrintT(ToJson([kind |-> "case", stmt |-> st, mutant |-> mutant]))
=============================================================================
