package main

// Store-level traces: the storage call log of one statement, validated by
// TraceStore.tla against the KvStore contract (C11, C12, C13).

type pairJ struct {
	K []int `json:"k"`
	V []int `json:"v"`
}

type storeTrace struct {
	ID       string   `json:"id"`
	Q        string   `json:"q"`
	Kind     string   `json:"kind"` // select | delete | put | remove
	Before   []pairJ  `json:"before"`
	Selected [][]int  `json:"selected"` // delete: keys the contract selects; remove: keys to remove
	Writes   []pairJ  `json:"writes"`   // put: the evaluated pairs in order
	EvalFails bool    `json:"evalfails"` // put/remove: some key/value expression fails
	Events   []Event  `json:"events"`
	After    []pairJ  `json:"after"`
	Modelled bool     `json:"modelled"` // contract expectation present
	Phase    string   `json:"phase"`
	ErrKind  string   `json:"errkind"`
	FaultAt  int      `json:"faultat"`
}

func encPairs(p []KV) []pairJ {
	r := make([]pairJ, len(p))
	for i, x := range p {
		r[i] = pairJ{bi(x.K), bi(x.V)}
	}
	return r
}

func storeEvents(log []Event) []Event {
	out := make([]Event, 0, len(log))
	for _, e := range log {
		if e.K == nil {
			e.K = []int{}
		}
		if e.V == nil {
			e.V = []int{}
		}
		if e.Ks == nil {
			e.Ks = [][]int{}
		}
		if e.Vs == nil {
			e.Vs = [][]int{}
		}
		out = append(out, e)
	}
	return out
}
