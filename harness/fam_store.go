package main

// Store-level traces: the storage call log of one statement, validated by
// TraceStore.tla against the KvStore / KvExec contract (C11, C12, C13).

import (
	"encoding/json"
	"flag"
	"fmt"
)

type obsJ struct {
	K     []int `json:"k"`
	Found bool  `json:"found"`
	V     []int `json:"v"`
}

type storeTrace struct {
	ID       string  `json:"id"`
	Q        string  `json:"q"`
	Kind     string  `json:"kind"` // select | delete | put | remove
	Stmt     *Stmt   `json:"stmt"`
	HasStmt  bool    `json:"hasstmt"` // the contract can recompute the expectation from stmt
	Before   []SPair `json:"before"`
	Events   []Event `json:"events"`
	After    []SPair `json:"after"`
	Observed []obsJ  `json:"observed"` // follow-up `select * where key = k` per written/removed key
	Phase    string  `json:"phase"`
	ErrKind  string  `json:"errkind"`
	FaultAt  int     `json:"faultat"`
	NRows    int     `json:"nrows"`
}

func storeEvents(log []Event) []Event {
	out := make([]Event, 0, len(log))
	for _, e := range log {
		if e.K == nil {
			e.K = []int{}
		}
		if e.V == nil {
			e.V = []int{}
		}
		if e.Ks == nil {
			e.Ks = [][]int{}
		}
		if e.Vs == nil {
			e.Vs = [][]int{}
		}
		out = append(out, e)
	}
	return out
}

type stmtCase struct {
	Kind  string  `json:"kind"`
	ID    string  `json:"id"`
	Stmt  *Stmt   `json:"stmt"`
	Store []SPair `json:"store"`
	Polls string  `json:"polls"` // per-poll modes, e.g. "rb"; "" = both pure modes
	After int     `json:"after"` // extra polls after the end of stream
	Raw   string  `json:"raw"`   // raw query text (rejected-statement cases)
}

// runStoreCase runs one statement and returns its store trace.
func runStoreCase(id string, st *Stmt, raw string, store []SPair, o RunOpts) storeTrace {
	q := raw
	kind := "select"
	if st != nil {
		q = st.Text()
		kind = st.Kind
	}
	pairs := kvOf(store)
	out, sh := RunOn(q, pairs, o)
	tr := storeTrace{ID: id, Q: q, Kind: kind, Stmt: st, HasStmt: st != nil, Before: store, Events: storeEvents(sh.Log),
		After: plainPairs(sh.St.Snapshot()), Observed: []obsJ{}, Phase: out.Phase, ErrKind: out.ErrKind, FaultAt: o.FaultAt, NRows: len(out.Rows)}
	if tr.Stmt == nil {
		tr.Stmt = &Stmt{Kind: "select"}
		tr.Stmt.fix()
	}
	// follow-up point selects on the post-state (C12: "a following select observes them")
	if o.FaultAt == 0 && (kind == "put" || kind == "remove") && out.Phase == "done" {
		seen := map[string]bool{}
		for _, e := range sh.Log {
			var ks [][]int
			switch e.Op {
			case "Put", "Delete":
				ks = [][]int{e.K}
			case "BatchPut", "BatchDelete":
				ks = e.Ks
			}
			for _, k := range ks {
				key := string(ib(k))
				if seen[key] || !plainLiteral(key) {
					continue
				}
				seen[key] = true
				sel := "select * where key = " + quoteStr([]byte(key))
				so := RunQuery(sel, NewRec(&Shared{St: sh.St, Quiet: true}, 0), nil, RunOpts{Mode: "row", BSize: 2, Cache: true, NoLog: true})
				ob := obsJ{K: k, V: []int{}}
				if so.Phase == "done" && len(so.Rows) == 1 && len(so.Rows[0]) == 2 {
					ob.Found = true
					ob.V = so.Rows[0][1].S
				} else if so.Phase != "done" || len(so.Rows) > 1 {
					ob.Found = true
					ob.V = bi([]byte("<<select failed: " + so.Phase + " " + so.ErrMsg + ">>"))
				}
				tr.Observed = append(tr.Observed, ob)
			}
		}
	}
	return tr
}

func plainLiteral(s string) bool {
	for i := 0; i < len(s); i++ {
		if s[i] == '\'' || s[i] == '"' || s[i] == '`' {
			return false
		}
	}
	return true
}

func init() {
	replayFamilies["stmts"] = replayStmts
}

func replayStmts(args []string) {
	c := parseCommon("stmts", args, func(fs *flag.FlagSet) {})
	out := NewOut(c.out, c.prop)
	defer out.Close()
	idx := 0
	bsizes := []int{1, 2, 32}
	err := readTLCLines(c.in, func(raw []byte) {
		var sc stmtCase
		if err := json.Unmarshal(raw, &sc); err != nil {
			out.Infra = append(out.Infra, "bad line: "+err.Error())
			return
		}
		if sc.Kind != "case" {
			return
		}
		idx++
		if (idx-1)%c.shards != c.shard {
			return
		}
		if sc.Stmt != nil {
			sc.Stmt.fix()
		}
		sc.Store = fixSPairs(sc.Store)
		sc.ID = shortHash(raw)
		if sc.Raw != "" {
			sc.Stmt = nil
		}
		if c.only != "" && c.only != sc.ID {
			return
		}
		out.Stats.Cases++
		q := sc.Raw
		if sc.Stmt != nil {
			q = sc.Stmt.Text()
		}
		out.Stats.distinct(q, len(sc.Store) > 0 || (sc.Stmt != nil && sc.Stmt.Kind != "select" && sc.Stmt.Kind != "delete"))
		if out.Stats.Cases%97 == 1 {
			out.Stats.sample(map[string]any{"id": sc.ID, "query": q, "store_pairs": len(sc.Store)})
		}
		switch c.prop {
		case "C13":
			for _, mode := range []string{"row", "batch"} {
				for _, bs := range []int{1, 2, 32} {
					if bs == 1 && sc.Stmt != nil && sc.Stmt.Kind == "select" {
						continue // batch size 1 only for the mutating statements (multi-key writes split into several calls)
					}
					base := runStoreCase(fmt.Sprintf("%s#%s%d-f0", sc.ID, mode, bs), sc.Stmt, sc.Raw, sc.Store, RunOpts{Mode: mode, BSize: bs, Cache: true})
					out.Stats.Evaluations++
					out.Trace("store", base)
					n := 0
					for _, e := range base.Events {
						switch e.Op {
						case "Get", "Put", "BatchPut", "Delete", "BatchDelete", "Cursor", "Seek", "Next":
							n++
						}
					}
					for i := 1; i <= n; i++ {
						tr := runStoreCase(fmt.Sprintf("%s#%s%d-f%d", sc.ID, mode, bs, i), sc.Stmt, sc.Raw, sc.Store, RunOpts{Mode: mode, BSize: bs, Cache: true, FaultAt: i, PollsAfterFail: 2})
						out.Stats.Evaluations++
						out.Trace("store", tr)
					}
					out.Stats.bump("fault-positions")
				}
			}
		default: // C11, C12
			type pm struct {
				mode, alt string
			}
			pms := []pm{{"row", ""}, {"batch", ""}}
			if sc.Polls != "" {
				pms = []pm{{"row", sc.Polls}}
			}
			for _, m := range pms {
				for _, bs := range bsizes {
					if sc.Stmt != nil && sc.Stmt.Kind != "delete" && bs != bsizes[0] {
						continue
					}
					tr := runStoreCase(fmt.Sprintf("%s#%s%s%d", sc.ID, m.mode, m.alt, bs), sc.Stmt, sc.Raw, sc.Store,
						RunOpts{Mode: m.mode, AltModes: m.alt, BSize: bs, Cache: true, PollsAfterEnd: sc.After})
					out.Stats.Evaluations++
					out.Trace("store", tr)
					// C12: a storage call of the write fails once (a transient fault); however the plan is polled
					// afterwards, nothing is written again
					if c.prop == "C12" && sc.Stmt != nil && (sc.Stmt.Kind == "put" || sc.Stmt.Kind == "remove") {
						n := 0
						for _, e := range tr.Events {
							switch e.Op {
							case "Get", "Put", "BatchPut", "Delete", "BatchDelete", "Cursor", "Seek", "Next":
								n++
							}
						}
						for i := 1; i <= n; i++ {
							ft := runStoreCase(fmt.Sprintf("%s#%s%s%d-f%d", sc.ID, m.mode, m.alt, bs, i), sc.Stmt, sc.Raw, sc.Store,
								RunOpts{Mode: m.mode, AltModes: m.alt, BSize: bs, Cache: true, FaultAt: i, PollsAfterFail: 3})
							out.Stats.Evaluations++
							out.Stats.bump("fault-then-repoll")
							out.Trace("store", ft)
						}
					}
				}
			}
		}
	})
	if err != nil {
		out.Infra = append(out.Infra, err.Error())
	}
}

// delgrid: DELETE ... LIMIT cases enumerated by MCStmt (Mode=c08d): store traces.
func init() {
	replayFamilies["delgrid"] = func(args []string) {
		c := parseCommon("delgrid", args, nil)
		out := NewOut(c.out, c.prop)
		defer out.Close()
		stores := map[string][]SPair{}
		idx := 0
		err := readTLCLines(c.in, func(raw []byte) {
			var rc rowsCase
			if err := json.Unmarshal(raw, &rc); err != nil {
				out.Infra = append(out.Infra, "bad line: "+err.Error())
				return
			}
			if rc.Kind == "store" {
				stores[rc.Sid] = fixSPairs(rc.Store)
				return
			}
			if rc.Kind != "case" {
				return
			}
			idx++
			if (idx-1)%c.shards != c.shard {
				return
			}
			rc.Stmt.fix()
			store, ok := stores[rc.Sid]
			if !ok {
				out.Infra = append(out.Infra, "unknown store id "+rc.Sid)
				return
			}
			id := shortHash(raw)
			if c.only != "" && c.only != id {
				return
			}
			out.Stats.Cases++
			q := rc.Stmt.Text()
			out.Stats.distinct(q+"@"+rc.Sid, len(store) > 0)
			if out.Stats.Cases%199 == 1 {
				out.Stats.sample(map[string]any{"id": id, "query": q, "store_pairs": len(store)})
			}
			for _, bs := range []int{1, 2, 3, 32} {
				mode := "batch"
				if bs == 2 {
					mode = "row"
				}
				tr := runStoreCase(fmt.Sprintf("%s#%s%d", id, mode, bs), rc.Stmt, "", store, RunOpts{Mode: mode, BSize: bs, Cache: true})
				out.Stats.Evaluations++
				out.Trace("store", tr)
			}
		})
		if err != nil {
			out.Infra = append(out.Infra, err.Error())
		}
	}
}
