package main

// Family "crash" (C06): every case runs in an isolated worker; the outcome
// and the protocol events are validated by TraceTotal.tla (the session
// machine is total: every call returns rows, end of stream or an error).

import (
	"encoding/json"
	"fmt"
	"sort"
	"time"
)

type corruptCase struct {
	Kind string `json:"kind"`
	Text []int  `json:"text"`
	Q    string `json:"q"` // MCTokens lines: the text itself
	// statement cases (MCTyping / MCStmt lines)
	Stmt *Stmt `json:"stmt"`
}

func crashMatrix(id, q string, i int) crashCase {
	names := []string{"big", "binary", "empty", "extreme", "json", "nonnum", "num", "short"}
	return crashCase{ID: id, Q: q, Store: names[i%len(names)], Mode: []string{"row", "batch"}[(i/8)%2], BS: []int{1, 2, 32}[(i/16)%3], Cache: (i/48)%2 == 0, Pad: []int{-1, 0, 7, 12}[(i/3)%4]}
}

func emitCrash(out *Out, prop string, results []crashResult) {
	for _, r := range results {
		out.Stats.Evaluations++
		switch r.Outcome {
		case "done", "failed", "rejected":
		default:
			out.Finding(Finding{Prop: prop, Kind: "crash-" + r.Outcome, Sig: crashSig(r), CaseID: r.ID, Query: r.Q,
				Detail: fmt.Sprintf("store=%s mode=%s bsize=%d: %s", r.Store, r.Mode, r.BS, r.Detail)})
		}
		out.Trace("total", r)
	}
}

func crashSig(r crashResult) string {
	return "C06:" + r.Outcome + ":" + r.Detail
}

func init() {
	replayFamilies["crash"] = func(args []string) {
		c := parseCommon("crash", args, nil)
		out := NewOut(c.out, c.prop)
		defer out.Close()
		var cases []crashCase
		idx := 0
		err := readTLCLines(c.in, func(raw []byte) {
			var cc corruptCase
			if err := json.Unmarshal(raw, &cc); err != nil || cc.Kind != "case" {
				return
			}
			idx++
			if (idx-1)%c.shards != c.shard {
				return
			}
			q := ""
			if cc.Stmt != nil {
				cc.Stmt.fix()
				q = cc.Stmt.Text()
			} else if cc.Q != "" {
				q = cc.Q
			} else {
				q = string(ib(cc.Text))
			}
			id := shortHash(raw)
			if c.only != "" && c.only != id {
				return
			}
			out.Stats.Cases++
			out.Stats.distinct(q, true)
			if out.Stats.Cases%3001 == 1 {
				out.Stats.sample(map[string]any{"query": q})
			}
			n := 1
			if cc.Stmt != nil || c.tier == "thorough" {
				n = 3 // statements: several store / mode / batch-size combinations
			}
			for k := 0; k < n; k++ {
				cases = append(cases, crashMatrix(fmt.Sprintf("%s#%d", id, k), q, idx*7+k*11))
			}
			if cc.Stmt != nil {
				// statements always also meet the chunk machinery: batches of 2 and 1 with the field cache on, over the stores
				// with many rows of which some fail the filter (several chunks scanned per call)
				cases = append(cases, crashCase{ID: id + "#b2", Q: q, Store: "num", Mode: "batch", BS: 2, Cache: true, Pad: -1},
					crashCase{ID: id + "#b1", Q: q, Store: "big", Mode: "batch", BS: []int{1, 3}[idx%2], Cache: true, Pad: -1})
			}
		})
		if err != nil {
			out.Infra = append(out.Infra, err.Error())
		}
		results, infra := runIsolated(cases, 5*time.Second)
		out.Infra = append(out.Infra, infra...)
		emitCrash(out, c.prop, results)
	}
	recordFamilies["crash"] = func(args []string) {
		c := parseCommon("crash", args, nil)
		out := NewOut(c.out, c.prop)
		defer out.Close()
		corpus := fullCorpus()
		sort.Strings(corpus)
		var cases []crashCase
		for i := 0; i < c.n; i++ {
			r := caseRand(c.shard, i)
			q := corpus[r.Intn(len(corpus))]
			switch r.Intn(5) {
			case 0: // the statement itself, on every hostile store
			case 1, 2:
				q = corrupt(q, r)
			default:
				q = corrupt(corrupt(q, r), r)
				if r.Intn(3) == 0 {
					q = corrupt(q, r)
				}
			}
			if r.Intn(40) == 0 { // deep nesting / long inputs (up to a few kilobytes)
				depth := 50 + r.Intn(400)
				q = "select * where " + repeatStr("(", depth) + "key = 'a'" + repeatStr(")", depth)
				if r.Intn(2) == 0 {
					q = "select * where " + repeatStr("!", depth) + "(key = 'a')"
				}
				if r.Intn(3) == 0 {
					q = "select * where key = 'a'" + repeatStr(" | key = 'b'", depth)
				}
			}
			id := fmt.Sprintf("r%d.%d", c.shard, i)
			if c.only != "" && c.only != id {
				continue
			}
			out.Stats.Cases++
			out.Stats.distinct(q, true)
			if i%997 == 0 {
				out.Stats.sample(map[string]any{"query": q})
			}
			cases = append(cases, crashMatrix(id, q, r.Intn(1<<20)))
		}
		results, infra := runIsolated(cases, 5*time.Second)
		out.Infra = append(out.Infra, infra...)
		emitCrash(out, c.prop, results)
	}
}

func repeatStr(s string, n int) string {
	b := make([]byte, 0, len(s)*n)
	for i := 0; i < n; i++ {
		b = append(b, s...)
	}
	return string(b)
}
