package main

// Family "typing" (C14): well-typed statements and their single-fault
// mutants (MCTyping.tla).  Every statement is planned over the recording
// storage (accepted? how many storage calls before the verdict?) and, when
// accepted, executed in both modes over three stores; execution errors of the
// operand-type class are recorded.  TraceTyping.tla judges each record with
// the KvTyping contract.

import (
	"strings"
	"encoding/json"
	"fmt"
	"regexp"
)

type typCase struct {
	Kind   string `json:"kind"`
	Stmt   *Stmt  `json:"stmt"`
	Mutant bool   `json:"mutant"`
}

type typTrace struct {
	ID       string   `json:"id"`
	Q        string   `json:"q"`
	Stmt     *Stmt    `json:"stmt"`
	Accepted bool     `json:"accepted"`
	NCalls   int      `json:"ncalls"`   // storage calls made by BuildPlan of a rejected statement
	Mutating int      `json:"mutating"` // mutating storage calls made by BuildPlan
	RejMsg   string   `json:"rejmsg"`
	TypeErrs []string `json:"typeerrs"` // operand-type execution errors of an accepted statement
	Panics   []string `json:"panics"`
	Runs     int      `json:"runs"`
}

// the closed class of "operand type" execution errors (DESIGN.md C14)
var typeErrRe = regexp.MustCompile(`has wrong type|not boolean|Invalid operator .* parameter type|require (number|string) type|result type not support|Cannot convert to`)

func typingStores() [][]KV {
	mk := func(kv ...string) []KV {
		var p []KV
		for i := 0; i+1 < len(kv); i += 2 {
			p = append(p, KV{[]byte(kv[i]), []byte(kv[i+1])})
		}
		return NewRefStore(p).Snapshot()
	}
	return [][]KV{
		mk("a", "a,b,c", "ab", "AB", "abc", "x", "b", "", "c", "1.5"),
		mk("a", "1", "ab", "2", "b", "10", "k1", "0", "k2", "7"),
		mk("a", `{"a":"x","b":2}`, "j2", `{"a":1}`, "j3", "not json"),
		{},
	}
}

func runTypingCase(id string, st *Stmt) typTrace {
	renderMinParens = strings.HasSuffix(id, "#min") // the same statement written with as few parentheses as possible (`!!x`, `a - b - c`)
	q := st.Text()
	renderMinParens = false
	tr := typTrace{ID: id, Q: q, Stmt: st, TypeErrs: []string{}, Panics: []string{}}
	stores := typingStores()
	first := true
	for _, pairs := range stores {
		for _, mode := range []string{"row", "batch"} {
			o, sh := RunOn(q, pairs, RunOpts{Mode: mode, BSize: 2, Cache: true})
			tr.Runs++
			if first {
				first = false
				tr.Accepted = o.Phase != "rejected"
				if o.Phase == "rejected" {
					tr.RejMsg = firstLine(o.ErrMsg)
					tr.NCalls = sh.NCalls
					for _, e := range sh.Log {
						switch e.Op {
						case "Put", "BatchPut", "Delete", "BatchDelete":
							tr.Mutating++
						}
					}
				}
			}
			if o.Phase == "rejected" {
				return tr
			}
			if o.Phase == "panic" {
				tr.Panics = append(tr.Panics, mode+": "+o.ErrMsg+" @"+o.PanicFn)
			}
			if o.Phase == "failed" && typeErrRe.MatchString(o.ErrMsg) {
				tr.TypeErrs = append(tr.TypeErrs, mode+": "+firstLine(o.ErrMsg))
			}
		}
	}
	return tr
}

func init() {
	replayFamilies["typing"] = func(args []string) {
		c := parseCommon("typing", args, nil)
		out := NewOut(c.out, c.prop)
		defer out.Close()
		idx := 0
		err := readTLCLines(c.in, func(raw []byte) {
			var tc typCase
			if err := json.Unmarshal(raw, &tc); err != nil {
				out.Infra = append(out.Infra, "bad line: "+err.Error())
				return
			}
			if tc.Kind != "case" {
				return
			}
			idx++
			if (idx-1)%c.shards != c.shard {
				return
			}
			tc.Stmt.fix()
			id := shortHash(raw)
			if c.only != "" && c.only != id {
				return
			}
			out.Stats.Cases++
			tr := runTypingCase(id, tc.Stmt)
			out.Stats.Evaluations += tr.Runs
			out.Stats.distinct(tr.Q, true)
			if tc.Mutant {
				out.Stats.bump("mutants")
			} else {
				out.Stats.bump("originals")
			}
			if out.Stats.Cases%211 == 1 {
				out.Stats.sample(map[string]any{"query": tr.Q, "single_fault_mutant": tc.Mutant, "accepted": tr.Accepted, "reject_message": tr.RejMsg})
			}
			for _, p := range tr.Panics {
				out.Finding(Finding{Prop: c.prop, Kind: "run-panic", CaseID: id, Query: tr.Q, Detail: p})
			}
			out.Trace("typing", tr)
			tr2 := runTypingCase(id+"#min", tc.Stmt)
			if tr2.Q != tr.Q {
				out.Stats.Evaluations += tr2.Runs
				for _, p := range tr2.Panics {
					out.Finding(Finding{Prop: c.prop, Kind: "run-panic", CaseID: id, Query: tr2.Q, Detail: p})
				}
				out.Trace("typing", tr2)
			}
		})
		if err != nil {
			out.Infra = append(out.Infra, err.Error())
		}
		_ = fmt.Sprint
	}
}
