package main

// Family "errs" (C17): positions of positional errors and their rendering.

import (
	"encoding/json"
	"errors"
	"fmt"
	"sort"
	"strings"

	"github.com/c4pt0r/kvql"
)

type errCase struct {
	Kind string `json:"kind"`
	Q    []int  `json:"q"`
	Pos  int    `json:"pos"`
	Pad  int    `json:"pad"`
}

type errTrace struct {
	ID      string `json:"id"`
	Q       string `json:"-"`
	QB      []int  `json:"q"`
	Pos     int    `json:"pos"`
	Pad     int    `json:"pad"`
	EKind   string `json:"ekind"` // syntax | execute | direct
	TokPos  []int  `json:"tokpos"` // token start offsets (engine lexer)
	Out     []int  `json:"out"`
	Panic   string `json:"panic"`
	// the same error object printed again after ANOTHER erroneous statement was parsed, bound and printed
	// (an error is a value: what a later statement does cannot change it); HasLate = the step was performed
	HasLate bool  `json:"haslate"`
	Late    []int `json:"late"`
}

func withLate(tr errTrace, err error) errTrace {
	tr.Late = []int{}
	if tr.Panic == "" && err != nil {
		tr.HasLate, tr.Late = true, lateRender(err)
		if tr.Late == nil {
			tr.Late = []int{}
		}
	}
	return tr
}

// lateRender: parse and print two other truncated statements, then print err again.
func lateRender(err error) []int {
	defer func() { recover() }()
	for _, q2 := range []string{"select * where key = 'zz' &", "put ('other'"} {
		o2, _ := RunOn(q2, nil, RunOpts{Mode: "row", BSize: 2, Cache: true, NoLog: true})
		if o2.err != nil {
			BindAndRender(o2.err, q2, 3)
		}
	}
	return bi([]byte(err.Error()))
}

func tokenStarts(q string) []int {
	defer func() { recover() }()
	r := []int{}
	for _, t := range kvql.NewLexer(q).Split() {
		r = append(r, t.Pos)
	}
	sort.Ints(r)
	return r
}

func renderErr(err error, q string, pad int) (string, string) {
	return BindAndRender(err, q, pad)
}

func init() {
	replayFamilies["errs"] = func(args []string) {
		c := parseCommon("errs", args, nil)
		out := NewOut(c.out, c.prop)
		defer out.Close()
		idx := 0
		err := readTLCLines(c.in, func(raw []byte) {
			var ec errCase
			if err := json.Unmarshal(raw, &ec); err != nil {
				out.Infra = append(out.Infra, "bad line: "+err.Error())
				return
			}
			if ec.Kind != "case" {
				return
			}
			idx++
			if (idx-1)%c.shards != c.shard {
				return
			}
			id := shortHash(raw)
			if c.only != "" && c.only != id {
				return
			}
			q := string(ib(ec.Q))
			out.Stats.Cases++
			out.Stats.distinct(id, len(q) > 0)
			for vi, mk := range []func(int, string, ...any) error{kvql.NewSyntaxError, kvql.NewExecuteError} {
				e := mk(ec.Pos, "msg %d", 1)
				s, p := renderErr(e, q, ec.Pad)
				out.Stats.Evaluations++
				if out.Stats.Cases%3000 == 1 && vi == 0 {
					out.Stats.sample(map[string]any{"query": q, "pos": ec.Pos, "pad": ec.Pad, "rendered": s})
				}
				out.Trace("errs", errTrace{ID: fmt.Sprintf("%s#%d", id, vi), QB: ec.Q, Pos: ec.Pos, Pad: ec.Pad, EKind: "direct", TokPos: []int{}, Out: bi([]byte(s)), Panic: p, Late: []int{}})
			}
		})
		if err != nil {
			out.Infra = append(out.Infra, err.Error())
		}
	}
	// erroneous statements enumerated by TLC (MCTyping mutants): the error sits at every operator / operand / call
	replayFamilies["errstmts"] = func(args []string) {
		c := parseCommon("errstmts", args, nil)
		out := NewOut(c.out, c.prop)
		defer out.Close()
		idx := 0
		err := readTLCLines(c.in, func(raw []byte) {
			var tc typCase
			if err := json.Unmarshal(raw, &tc); err != nil || tc.Kind != "case" || !tc.Mutant {
				return
			}
			idx++
			if (idx-1)%c.shards != c.shard {
				return
			}
			tc.Stmt.fix()
			id := shortHash(raw)
			if c.only != "" && c.only != id {
				return
			}
			out.Stats.Cases++
			base := tc.Stmt.Text()
			out.Stats.distinct(base, true)
			for vi, v := range []struct {
				lead, trail, pad int
				long bool
			}{{0, 0, -1, false}, {1, 4, 0, false}, {4, 1, 12, true}} {
				q := base
				if v.long && tc.Stmt.Kind == "select" && len(tc.Stmt.Order) == 0 && !tc.Stmt.Lim.Has {
					q += " & key != 'zzzzzzzzzzzzzzzzzzzz_filler_to_make_the_statement_longer_than_seventy_bytes'"
				}
				q = strings.Repeat(" ", v.lead) + q + strings.Repeat(" ", v.trail)
				o, _ := RunOn(q, nil, RunOpts{Mode: "row", BSize: 2, Cache: true, NoLog: true})
				out.Stats.Evaluations++
				if o.err == nil {
					continue
				}
				var se *kvql.SyntaxError
				var ee *kvql.ExecuteError
				pos, kind := 0, ""
				if errors.As(o.err, &se) {
					pos, kind = se.Pos, "syntax"
				} else if errors.As(o.err, &ee) {
					pos, kind = ee.Pos, "execute"
				} else {
					continue
				}
				s, p := renderErr(o.err, q, v.pad)
				effPad := v.pad
				if effPad < 0 {
					effPad = kvql.DefaultErrorPadding
				}
				if out.Stats.Cases%300 == 1 && vi == 1 {
					out.Stats.sample(map[string]any{"query": q, "pos": pos, "kind": kind, "rendered": s})
				}
				out.Trace("errs", withLate(errTrace{ID: fmt.Sprintf("%s#%d", id, vi), Q: q, QB: bi([]byte(q)), Pos: pos, Pad: effPad, EKind: kind, TokPos: tokenStarts(q), Out: bi([]byte(s)), Panic: p}, o.err))
			}
		})
		if err != nil {
			out.Infra = append(out.Infra, err.Error())
		}
	}
	// every token sequence of MCTokens: most of them are refused, each at some token
	replayFamilies["errtexts"] = func(args []string) {
		c := parseCommon("errtexts", args, nil)
		out := NewOut(c.out, c.prop)
		defer out.Close()
		idx := 0
		err := readTLCLines(c.in, func(raw []byte) {
			var cc corruptCase
			if err := json.Unmarshal(raw, &cc); err != nil || cc.Kind != "case" || cc.Q == "" {
				return
			}
			idx++
			if (idx-1)%c.shards != c.shard {
				return
			}
			id := shortHash(raw)
			if c.only != "" && c.only != id {
				return
			}
			out.Stats.Cases++
			out.Stats.distinct(cc.Q, true)
			vs := []struct{ lead, trail, pad int }{{0, 0, -1}, {1, 4, 0}, {4, 1, 12}}
			v := vs[idx%3]
			body := cc.Q
			if idx%2 == 1 {
				body = strings.ReplaceAll(body, " ", []string{"  ", "   ", " \t "}[idx%3]) // runs of blanks between the tokens
			}
			q := strings.Repeat(" ", v.lead) + body + strings.Repeat(" ", v.trail)
			o, _ := RunOn(q, nil, RunOpts{Mode: "row", BSize: 2, Cache: true, NoLog: true})
			out.Stats.Evaluations++
			if o.err == nil || o.Phase == "panic" {
				return
			}
			var se *kvql.SyntaxError
			var ee *kvql.ExecuteError
			pos, kind := 0, ""
			if errors.As(o.err, &se) {
				pos, kind = se.Pos, "syntax"
			} else if errors.As(o.err, &ee) {
				pos, kind = ee.Pos, "execute"
			} else {
				return
			}
			s, p := renderErr(o.err, q, v.pad)
			effPad := v.pad
			if effPad < 0 {
				effPad = kvql.DefaultErrorPadding
			}
			if out.Stats.Cases%3000 == 1 {
				out.Stats.sample(map[string]any{"query": q, "pos": pos, "kind": kind, "rendered": s})
			}
			out.Trace("errs", withLate(errTrace{ID: id, Q: q, QB: bi([]byte(q)), Pos: pos, Pad: effPad, EKind: kind, TokPos: tokenStarts(q), Out: bi([]byte(s)), Panic: p}, o.err))
		})
		if err != nil {
			out.Infra = append(out.Infra, err.Error())
		}
	}
	recordFamilies["errs"] = func(args []string) {
		c := parseCommon("errs", args, nil)
		out := NewOut(c.out, c.prop)
		defer out.Close()
		corpus := fullCorpus()
		stores := corpusStores()
		names := []string{}
		for k := range stores {
			names = append(names, k)
		}
		sort.Strings(names)
		for i := 0; i < c.n; i++ {
			r := caseRand(c.shard, i)
			q := corpus[r.Intn(len(corpus))]
			// lengthen some statements so the fault sits early / late in a > 70 byte text
			if r.Intn(3) == 0 && strings.Contains(strings.ToLower(q), "where") && !strings.Contains(strings.ToLower(q), "limit") && !strings.Contains(strings.ToLower(q), "order") && !strings.Contains(strings.ToLower(q), "group") {
				for k := 0; k < 1+r.Intn(4); k++ {
					q += fmt.Sprintf(" & key != 'zz%c%c%c_filler'", 'a'+byte(r.Intn(26)), 'a'+byte(r.Intn(26)), 'a'+byte(r.Intn(26)))
				}
			}
			for k := 0; k < 1+r.Intn(2); k++ {
				q = corrupt(q, r)
			}
			q = strings.Repeat(" ", []int{0, 1, 4}[r.Intn(3)]) + q + strings.Repeat(" ", []int{0, 1, 4}[r.Intn(3)])
			pad := []int{-1, 0, 7, 12}[r.Intn(4)]
			id := fmt.Sprintf("r%d.%d", c.shard, i)
			if c.only != "" && c.only != id {
				continue
			}
			out.Stats.Cases++
			pairs := stores[names[r.Intn(len(names))]]
			o, _ := RunOn(q, pairs, RunOpts{Mode: []string{"row", "batch"}[r.Intn(2)], BSize: []int{1, 2, 32}[r.Intn(3)], Cache: true, NoLog: true, MaxRows: 5000})
			out.Stats.Evaluations++
			if o.err == nil {
				continue
			}
			var se *kvql.SyntaxError
			var ee *kvql.ExecuteError
			pos, kind := 0, ""
			if errors.As(o.err, &se) {
				pos, kind = se.Pos, "syntax"
			} else if errors.As(o.err, &ee) {
				pos, kind = ee.Pos, "execute"
			} else {
				continue // not a positional error
			}
			s, p := renderErr(o.err, q, pad)
			effPad := pad
			if pad < 0 {
				effPad = kvql.DefaultErrorPadding
			}
			out.Stats.distinct(q, true)
			if i%700 == 0 {
				out.Stats.sample(map[string]any{"query": q, "pos": pos, "kind": kind, "rendered": s})
			}
			out.Trace("errs", withLate(errTrace{ID: id, Q: q, QB: bi([]byte(q)), Pos: pos, Pad: effPad, EKind: kind, TokPos: tokenStarts(q), Out: bi([]byte(s)), Panic: p}, o.err))
		}
	}
}
