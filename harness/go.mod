module kvh

go 1.21.1

require github.com/c4pt0r/kvql v0.0.0

require github.com/beorn7/perks v1.0.1 // indirect

replace github.com/c4pt0r/kvql => /repo
