package main

// kvh: conformance harness binding the TLA+ specification of kvql to the
// real engine.  Sub-commands:
//   probe  <batch> <query>...            ad-hoc run over a small store
//   replay <family> [flags]              cases from TLC on stdin -> engine -> findings + traces
//   record <family> [flags]              harness-generated cases -> engine -> traces for TLC

import (
	"strings"
	"bufio"
	"crypto/sha1"
	"encoding/hex"
	"encoding/json"
	"flag"
	"math/rand"
	"fmt"
	"os"
	"path/filepath"
	"sort"
	"strconv"
)

type Finding struct {
	Prop   string          `json:"prop"`
	Kind   string          `json:"kind"`
	Sig    string          `json:"sig"`
	CaseID string          `json:"case"`
	Query  string          `json:"query"`
	Detail string          `json:"detail"`
	Replay json.RawMessage `json:"replay,omitempty"`
}

type Stats struct {
	Evaluations int            `json:"evaluations"`
	Cases       int            `json:"cases"`
	Nontrivial  int            `json:"distinct_nontrivial"`
	Unmodelled  int            `json:"unmodelled"`
	Traces      int            `json:"traces"`
	Extra       map[string]int `json:"extra"`
	Samples     []any          `json:"samples"`
	seen        map[string]bool
}

func (s *Stats) distinct(key string, nontrivial bool) {
	if s.seen == nil {
		s.seen = map[string]bool{}
	}
	if nontrivial && !s.seen[key] {
		s.seen[key] = true
		s.Nontrivial++
	}
}
func (s *Stats) bump(k string) {
	if s.Extra == nil {
		s.Extra = map[string]int{}
	}
	s.Extra[k]++
}
func (s *Stats) sample(x any) {
	if len(s.Samples) < 5 {
		s.Samples = append(s.Samples, x)
	}
}

// Out collects what a family run produces.
type Out struct {
	dir      string
	findings *bufio.Writer
	ff       *os.File
	traces   map[string]*bufio.Writer
	tf       map[string]*os.File
	Stats    Stats
	Prop     string
	Infra    []string // harness-level problems (exit 2)
}

func NewOut(dir, prop string) *Out {
	os.MkdirAll(dir, 0o755)
	f, err := os.Create(filepath.Join(dir, "findings.ndjson"))
	if err != nil {
		panic(err)
	}
	return &Out{dir: dir, ff: f, findings: bufio.NewWriter(f), traces: map[string]*bufio.Writer{}, tf: map[string]*os.File{}, Prop: prop}
}

func (o *Out) Finding(f Finding) {
	b, _ := json.Marshal(f)
	o.findings.Write(b)
	o.findings.WriteByte('\n')
}

// Trace appends one record to the named trace file (validated by TLC).
func (o *Out) Trace(name string, rec any) {
	w, ok := o.traces[name]
	if !ok {
		f, err := os.Create(filepath.Join(o.dir, name+".ndjson"))
		if err != nil {
			panic(err)
		}
		o.tf[name] = f
		w = bufio.NewWriterSize(f, 1<<20)
		o.traces[name] = w
	}
	b, err := json.Marshal(rec)
	if err != nil {
		panic(err)
	}
	w.Write(b)
	w.WriteByte('\n')
	o.Stats.Traces++
}

func (o *Out) Close() {
	o.findings.Flush()
	o.ff.Close()
	for n, w := range o.traces {
		w.Flush()
		o.tf[n].Close()
	}
	st, _ := json.Marshal(struct {
		Stats
		Infra []string `json:"infra"`
	}{o.Stats, o.Infra})
	os.WriteFile(filepath.Join(o.dir, "stats.json"), st, 0o644)
}

func envSeed() int64 {
	if s := os.Getenv("VERIF_SEED"); s != "" {
		if n, err := strconv.ParseInt(s, 10, 64); err == nil {
			return n
		}
	}
	return 1
}

// readTLCLines reads TLC's PrintT(ToJson(..)) output lines from r and calls f
// with the decoded inner JSON of each.
func readTLCLines(path string, f func(raw []byte)) error {
	var in *os.File
	var err error
	if path == "-" {
		in = os.Stdin
	} else {
		in, err = os.Open(path)
		if err != nil {
			return err
		}
		defer in.Close()
	}
	sc := bufio.NewScanner(in)
	sc.Buffer(make([]byte, 1<<20), 1<<26)
	for sc.Scan() {
		line := sc.Bytes()
		if len(line) < 3 || line[0] != '"' || line[1] != '{' {
			if len(line) > 1 && line[0] == '{' {
				f(append([]byte{}, line...))
			}
			continue
		}
		var inner string
		if err := json.Unmarshal(line, &inner); err != nil {
			continue
		}
		f([]byte(inner))
	}
	return sc.Err()
}

// caseRand: an independent, reproducible random stream per generated case
func caseRand(shard, i int) *rand.Rand {
	return rand.New(rand.NewSource(envSeed()*1000003 + int64(shard)*7919 + int64(i)*104729 + 17))
}

func shortHash(b []byte) string {
	h := sha1.Sum(b)
	return hex.EncodeToString(h[:6])
}

type familyFn func(args []string)

var replayFamilies = map[string]familyFn{}
var recordFamilies = map[string]familyFn{}

func main() {
	if len(os.Args) < 2 {
		fmt.Fprintln(os.Stderr, "usage: kvh probe|replay|record ...")
		os.Exit(2)
	}
	switch os.Args[1] {
	case "probe":
		probeMain(os.Args[2:])
	case "replay", "record":
		tab := replayFamilies
		if os.Args[1] == "record" {
			tab = recordFamilies
		}
		if len(os.Args) < 3 || tab[os.Args[2]] == nil {
			names := []string{}
			for k := range tab {
				names = append(names, k)
			}
			sort.Strings(names)
			fmt.Fprintln(os.Stderr, "families:", names)
			os.Exit(2)
		}
		tab[os.Args[2]](os.Args[3:])
	case "worker":
		workerMain(os.Args[2:])
	default:
		fmt.Fprintln(os.Stderr, "unknown sub-command", os.Args[1])
		os.Exit(2)
	}
}

type commonFlags struct {
	in, out, prop string
	shard, shards int
	tier          string
	n             int
	only          string
}

func parseCommon(name string, args []string, extra func(fs *flag.FlagSet)) commonFlags {
	var c commonFlags
	fs := flag.NewFlagSet(name, flag.ExitOnError)
	fs.StringVar(&c.in, "in", "-", "input file with TLC output lines ('-' = stdin)")
	fs.StringVar(&c.out, "out", "out", "output directory")
	fs.StringVar(&c.prop, "prop", "", "property id the verdicts are for")
	fs.IntVar(&c.shard, "shard", 0, "shard index")
	fs.IntVar(&c.shards, "shards", 1, "number of shards")
	fs.StringVar(&c.tier, "tier", "quick", "quick|thorough")
	fs.IntVar(&c.n, "n", 0, "number of generated cases (record)")
	fs.StringVar(&c.only, "only", "", "run only the case with this id")
	if extra != nil {
		extra(fs)
	}
	fs.Parse(args)
	return c
}

func probeMain(args []string) {
	bs, _ := strconv.Atoi(args[0])
	pairs := []KV{}
	def := [][2]string{{"a", "1"}, {"ab", "2"}, {"abc", "3"}, {"b", "4"}, {"ba", "5"}, {"c", "x"}}
	if env := os.Getenv("KVH_STORE"); env != "" { // k=v,k=v
		def = nil
		for _, kv := range strings.Split(env, ",") {
			i := strings.Index(kv, "=")
			def = append(def, [2]string{kv[:i], kv[i+1:]})
		}
	}
	for _, kv := range def {
		pairs = append(pairs, KV{[]byte(kv[0]), []byte(kv[1])})
	}
	for _, q := range args[1:] {
		for _, mode := range []string{"row", "batch"} {
			out, sh := RunOn(q, pairs, RunOpts{Mode: mode, BSize: bs, Cache: true, AltModes: os.Getenv("KVH_ALT")})
			fmt.Printf("Q[%s] %s\n  phase=%s err=%s/%q plan=%v\n", mode, q, out.Phase, out.ErrKind, out.ErrMsg, out.Explain)
			for _, r := range out.Rows {
				fmt.Printf("  row: %v\n", r)
			}
			fmt.Printf("  calls=%d\n", sh.NCalls)
		}
	}
}
