package main

// Encoding of engine column values as the specification's uniform value
// records [t, s, n, d, l].

import (
	"fmt"
	"math"
	"sort"
	"strconv"

	"github.com/c4pt0r/kvql"
)

type Val struct {
	T string `json:"t"`
	S []int  `json:"s"`
	N int    `json:"n"`
	D int    `json:"d"`
	L []Val  `json:"l"`
}

func mkVal(t string) Val { return Val{T: t, S: []int{}, L: []Val{}} }

func VStr(b []byte) Val { v := mkVal("s"); v.S = bi(b); return v }
func VInt(n int64) Val {
	if n > -(1<<30) && n < (1<<30) {
		v := mkVal("i")
		v.N = int(n)
		return v
	}
	v := mkVal("I") // integer outside the range TLC can compute with: compared by text only
	v.S = bi([]byte(strconv.FormatInt(n, 10)))
	return v
}
func VBool(b bool) Val {
	v := mkVal("b")
	if b {
		v.N = 1
	}
	return v
}

// VFloat encodes f as the dyadic n / 2^d when that is exact and small.
func VFloat(f float64) Val {
	if !math.IsNaN(f) && !math.IsInf(f, 0) {
		if f == 0 {
			v := mkVal("f")
			return v
		}
		fr, exp := math.Frexp(f) // f = fr * 2^exp, 0.5 <= |fr| < 1
		// scale mantissa to an integer
		m := fr
		e := exp
		for i := 0; i < 53 && m != math.Trunc(m); i++ {
			m *= 2
			e--
		}
		if m == math.Trunc(m) && math.Abs(m) < 60000000 {
			n := int64(m)
			if e >= 0 {
				if e < 26 && math.Abs(m)*math.Pow(2, float64(e)) < 60000000 {
					v := mkVal("f")
					v.N = int(n << uint(e))
					return v
				}
			} else if -e <= 20 {
				v := mkVal("f")
				v.N = int(n)
				v.D = -e
				return v
			}
		}
	}
	v := mkVal("F") // float outside the modelled dyadics: compared by shortest text only
	v.S = bi([]byte(strconv.FormatFloat(f, 'g', -1, 64)))
	return v
}

func VList(items []Val) Val { v := mkVal("l"); v.L = items; return v }

func EncodeCol(c any) Val {
	switch x := c.(type) {
	case nil:
		return mkVal("nil")
	case []byte:
		return VStr(x)
	case string:
		return VStr([]byte(x))
	case bool:
		return VBool(x)
	case int:
		return VInt(int64(x))
	case int8:
		return VInt(int64(x))
	case int16:
		return VInt(int64(x))
	case int32:
		return VInt(int64(x))
	case int64:
		return VInt(x)
	case uint:
		return VInt(int64(x))
	case uint8:
		return VInt(int64(x))
	case uint16:
		return VInt(int64(x))
	case uint32:
		return VInt(int64(x))
	case uint64:
		return VInt(int64(x))
	case float32:
		return VFloat(float64(x))
	case float64:
		return VFloat(x)
	case []string:
		l := make([]Val, len(x))
		for i, e := range x {
			l[i] = VStr([]byte(e))
		}
		return VList(l)
	case [][]byte:
		l := make([]Val, len(x))
		for i, e := range x {
			l[i] = VStr(e)
		}
		return VList(l)
	case []int64:
		l := make([]Val, len(x))
		for i, e := range x {
			l[i] = VInt(e)
		}
		return VList(l)
	case []int:
		l := make([]Val, len(x))
		for i, e := range x {
			l[i] = VInt(int64(e))
		}
		return VList(l)
	case []float64:
		l := make([]Val, len(x))
		for i, e := range x {
			l[i] = VFloat(e)
		}
		return VList(l)
	case []any:
		l := make([]Val, len(x))
		for i, e := range x {
			l[i] = EncodeCol(e)
		}
		return VList(l)
	case kvql.JSON:
		return encodeObj(map[string]any(x))
	case map[string]any:
		return encodeObj(x)
	}
	v := mkVal("?")
	v.S = bi([]byte(fmt.Sprintf("%T", c)))
	return v
}

func encodeObj(m map[string]any) Val {
	names := make([]string, 0, len(m))
	for k := range m {
		names = append(names, k)
	}
	sort.Strings(names)
	v := mkVal("j")
	for _, k := range names {
		mem := mkVal("m")
		mem.S = bi([]byte(k))
		mem.L = []Val{EncodeCol(m[k])}
		v.L = append(v.L, mem)
	}
	return v
}

func EncodeRow(cols []kvql.Column) []Val {
	r := make([]Val, len(cols))
	for i, c := range cols {
		r[i] = EncodeCol(c)
	}
	return r
}

// ValEqual: content equality (text as bytes, numbers by kind and value,
// lists and JSON structurally).
func ValEqual(a, b Val) bool {
	if a.T != b.T || a.N != b.N || a.D != b.D || len(a.S) != len(b.S) || len(a.L) != len(b.L) {
		return false
	}
	for i := range a.S {
		if a.S[i] != b.S[i] {
			return false
		}
	}
	for i := range a.L {
		if !ValEqual(a.L[i], b.L[i]) {
			return false
		}
	}
	return true
}

func RowsEqual(a, b [][]Val) bool {
	if len(a) != len(b) {
		return false
	}
	for i := range a {
		if len(a[i]) != len(b[i]) {
			return false
		}
		for j := range a[i] {
			if !ValEqual(a[i][j], b[i][j]) {
				return false
			}
		}
	}
	return true
}

func (v Val) String() string {
	switch v.T {
	case "s":
		return fmt.Sprintf("%q", string(ib(v.S)))
	case "i":
		return strconv.Itoa(v.N)
	case "f":
		return dyText(v.N, v.D) + "f"
	case "b":
		if v.N == 1 {
			return "true"
		}
		return "false"
	case "I", "F", "?":
		return v.T + ":" + string(ib(v.S))
	case "l":
		s := "["
		for i, e := range v.L {
			if i > 0 {
				s += ","
			}
			s += e.String()
		}
		return s + "]"
	case "j":
		s := "{"
		for i, e := range v.L {
			if i > 0 {
				s += ","
			}
			s += string(ib(e.S)) + ":" + e.L[0].String()
		}
		return s + "}"
	}
	return v.T
}
