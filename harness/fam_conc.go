package main

// Family "conc" (C19): statements planned and executed concurrently on
// separate goroutines over one thread-safe recording storage.
//   replay: interleavings emitted by TLC (MCConc.tla) are reproduced exactly
//           by gating every storage call (scheduler-gated storage);
//   record: free-running rounds (2..16 goroutines, several GOMAXPROCS values).
// The records are validated by TraceConc.tla.  Built with -race, the Go
// race detector monitors the same executions.

import (
	"os"
	"strings"
	"encoding/json"
	"fmt"
	"runtime"
	"sync"
	"time"

	"github.com/c4pt0r/kvql"
)

type concStmtJ struct {
	Kind string `json:"kind"`
	Lo   int    `json:"lo"`
	Hi   int    `json:"hi"`
	Ks   []int  `json:"ks"`
	K    int    `json:"k"`
	V    int    `json:"v"`
}

type concCase struct {
	Kind  string `json:"kind"`
	Store []struct {
		K int `json:"k"`
		V int `json:"v"`
	} `json:"store"`
	Stmts []concStmtJ `json:"stmts"`
	Sched []int       `json:"sched"`
	B     int         `json:"b"`
}

type concResult struct {
	P     int     `json:"p"`
	Phase string  `json:"phase"`
	Err   string  `json:"err"`
	Rows  [][]Val `json:"rows"`
	// what the caller sees when it binds its query to a returned error and prints it (README usage)
	Rendered string `json:"rendered"`
	// the same statement run alone on the initial store (sequentially, before the concurrent run)
	HasAlone      bool    `json:"hasalone"`
	AlonePhase    string  `json:"alonephase"`
	AloneRows     [][]Val `json:"alonerows"`
	AloneRendered string  `json:"alonerendered"`
}

type concTrace struct {
	ID      string       `json:"id"`
	Q       string       `json:"q"`
	Store   []SPair      `json:"store"`
	Stmts   []*Stmt      `json:"stmts"`
	Events  []Event      `json:"events"`
	Results []concResult `json:"results"`
	Sched   []int        `json:"sched"`
}

func ck(n int) string { return fmt.Sprintf("k%02d", n) }

func concStmt(c concStmtJ) *Stmt {
	var st *Stmt
	switch c.Kind {
	case "sel":
		st = &Stmt{Kind: "select", Where: ABetween(AKey(), AStr(ck(c.Lo)), AStr(ck(c.Hi)))}
	case "get":
		items := []*Node{}
		for _, k := range c.Ks {
			items = append(items, AStr(ck(k)))
		}
		st = &Stmt{Kind: "select", Where: AIn(AKey(), items...)}
	case "put":
		st = &Stmt{Kind: "put", Pairs: []PutPair{{AStr(ck(c.K)), AStr(fmt.Sprint(c.V))}}}
	default:
		st = &Stmt{Kind: "delete", Where: ABetween(AKey(), AStr(ck(c.Lo)), AStr(ck(c.Hi)))}
	}
	st.fix()
	return st
}

// runConcurrent runs the statements on goroutines; sched (1-based session ids) gates the storage calls when non-nil.
func runConcurrent(store []SPair, texts []string, sched []int, bsize int, modes []string) ([]Event, []concResult, []SPair, string) {
	sh := &Shared{St: NewRefStore(kvOf(store))}
	n := len(texts)
	kvql.PlanBatchSize = bsize
	kvql.EnableFieldCache = true
	results := make([]concResult, n)
	done := make([]chan struct{}, n+1)
	grant := make([]chan struct{}, n+1)
	ack := make(chan int, 64)
	var free bool
	var fmu sync.Mutex
	if sched != nil {
		for p := 1; p <= n; p++ {
			done[p] = make(chan struct{})
			grant[p] = make(chan struct{})
		}
		sh.Gate = func(p int) {
			fmu.Lock()
			f := free
			fmu.Unlock()
			if f {
				return
			}
			<-grant[p]
		}
		sh.After = func(p int) {
			fmu.Lock()
			f := free
			fmu.Unlock()
			if !f {
				ack <- p
			}
		}
	}
	var wg sync.WaitGroup
	start := make(chan struct{})
	for p := 1; p <= n; p++ {
		wg.Add(1)
		go func(p int) {
			defer wg.Done()
			if sched != nil {
				defer close(done[p])
			}
			<-start
			rec := NewRec(sh, p)
			o := RunQuery(texts[p-1], rec, rec, RunOpts{Mode: modes[(p-1)%len(modes)], Cache: true, P: p, NoGlobals: true})
			rendered := ""
			if o.err != nil {
				rendered, _ = BindAndRender(o.err, texts[p-1], -1)
			}
			results[p-1] = concResult{P: p, Phase: o.Phase, Err: firstLine(o.ErrMsg), Rows: o.Rows, Rendered: rendered, AloneRows: [][]Val{}}
		}(p)
	}
	close(start)
	stuck := ""
	if sched != nil {
		for _, p := range sched {
			select {
			case <-done[p]:
				continue
			default:
			}
			select {
			case grant[p] <- struct{}{}:
				// wait until that call has completed (or the session ended)
				select {
				case <-ack:
				case <-done[p]:
				case <-time.After(5 * time.Second):
					stuck = fmt.Sprintf("session %d did not complete a granted call", p)
				}
			case <-done[p]:
			case <-time.After(5 * time.Second):
				stuck = fmt.Sprintf("session %d never arrived at the storage gate", p)
			}
			if stuck != "" {
				break
			}
		}
		// schedule exhausted (or engine makes more calls than the model): let everybody finish freely
		fmu.Lock()
		free = true
		fmu.Unlock()
		for p := 1; p <= n; p++ {
			go func(p int) {
				for {
					select {
					case grant[p] <- struct{}{}:
					case <-done[p]:
						return
					}
				}
			}(p)
		}
		go func() {
			for range ack {
			}
		}()
	}
	wg.Wait()
	sh.St.mu.Lock()
	log := append([]Event{}, sh.Log...)
	sh.St.mu.Unlock()
	return storeEvents(log), results, plainPairs(sh.St.Snapshot()), stuck
}

func concEventsOnly(log []Event) []Event {
	out := []Event{}
	for _, e := range log {
		switch e.Op {
		case "Get", "Put", "BatchPut", "Delete", "BatchDelete", "Cursor", "Seek", "Next":
			out = append(out, e)
		}
	}
	return out
}

func init() {
	replayFamilies["conc"] = func(args []string) {
		c := parseCommon("conc", args, nil)
		out := NewOut(c.out, c.prop)
		defer out.Close()
		idx := 0
		err := readTLCLines(c.in, func(raw []byte) {
			var cc concCase
			if err := json.Unmarshal(raw, &cc); err != nil || cc.Kind != "case" {
				return
			}
			idx++
			if (idx-1)%c.shards != c.shard {
				return
			}
			id := shortHash(raw)
			if c.only != "" && c.only != id {
				return
			}
			store := []SPair{}
			for _, p := range cc.Store {
				store = append(store, SPair{bi([]byte(ck(p.K))), bi([]byte(fmt.Sprint(p.V))), mkVal("unspec")})
			}
			stmts := []*Stmt{}
			q := ""
			for _, s := range cc.Stmts {
				st := concStmt(s)
				stmts = append(stmts, st)
				q += st.Text() + " || "
			}
			out.Stats.Cases++
			out.Stats.distinct(fmt.Sprint(cc.Sched)+q, len(cc.Sched) > 2)
			if out.Stats.Cases%997 == 1 {
				out.Stats.sample(map[string]any{"statements": q, "schedule": cc.Sched, "store_pairs": len(store)})
			}
			texts := make([]string, len(stmts))
			for i, st := range stmts {
				texts[i] = st.Text()
			}
			log, results, _, stuck := runConcurrent(store, texts, cc.Sched, cc.B, []string{"row"})
			out.Stats.Evaluations++
			if stuck != "" {
				out.Infra = append(out.Infra, "gated replay stuck: "+stuck+" in "+q)
				return
			}
			out.Trace("conc", concTrace{ID: id, Q: q, Store: store, Stmts: stmts, Events: concEventsOnly(log), Results: results, Sched: cc.Sched})
		})
		if err != nil {
			out.Infra = append(out.Infra, err.Error())
		}
	}
	recordFamilies["conc"] = func(args []string) {
		c := parseCommon("conc", args, nil)
		out := NewOut(c.out, c.prop)
		defer out.Close()
		for i := 0; i < c.n; i++ {
			r := caseRand(c.shard, i)
			id := fmt.Sprintf("r%d.%d", c.shard, i)
			if c.only != "" && c.only != id {
				continue
			}
			ng := 2 + r.Intn(15)
			runtime.GOMAXPROCS([]int{1, 2, 4, 16}[r.Intn(4)])
			// 16 regions r00..r15 of 6 keys each
			store := []KV{}
			for reg := 0; reg < 16; reg++ {
				for k := 0; k < 6; k++ {
					store = append(store, KV{[]byte(fmt.Sprintf("r%02dk%d", reg, k)), []byte(fmt.Sprint((reg*7 + k*3) % 6))})
				}
			}
			for reg := 0; reg < 16; reg++ {
				for k := 0; k < 5; k++ {
					store = append(store, KV{[]byte(fmt.Sprintf("j%02dk%d", reg, k)), []byte(fmt.Sprintf(`{"a":"%d-%d","n":%d}`, reg, k, reg*10+k))})
				}
			}
			sp := plainPairs(NewRefStore(store).Snapshot())
			stmts := []*Stmt{}
			texts := []string{}
			q := ""
			writerRegion := map[int]bool{}
			readerRegion := map[int]bool{}
			// half of the rounds have a theme: their first three statements are of one kind (on different regions), so that
			// whatever that kind of statement keeps outside the statement is used by several goroutines at once
			theme := -1
			if r.Intn(2) == 0 {
				theme = []int{1, 2, 3, 5, 5, 100, 101, 102, 4, 0, 103, 104, 104, 105, 106, 106, 6, 6}[r.Intn(18)]
			}
			for g := 0; g < ng; g++ {
				reg := r.Intn(16)
				pre := AStr(fmt.Sprintf("r%02d", reg))
				kpre := ABin("^=", AKey(), pre)
				n := Field{E: ACall("int", AVal()), Nm: "n"}
				var st *Stmt
				raw := ""
				kind := r.Intn(18)
				if kind == 10 {
					kind = 5
				}
				if kind >= 11 {
					kind += 89 // 100 .. 106: readers of a different sort (below)
				}
				if theme >= 0 && g < 3 {
					kind = theme
				}
				if kind >= 6 && kind < 100 { // writer: needs a region nobody else uses
					if writerRegion[reg] || readerRegion[reg] {
						kind = r.Intn(6)
					}
				}
				if (kind < 6 || kind >= 100) && writerRegion[reg] {
					// a reader must not look at a writer's region: pick a free one
					for t := 0; t < 16 && writerRegion[reg]; t++ {
						reg = (reg + 1) % 16
					}
					if writerRegion[reg] {
						continue
					}
					pre = AStr(fmt.Sprintf("r%02d", reg))
					kpre = ABin("^=", AKey(), pre)
				}
				switch kind {
				case 0:
					st = &Stmt{Kind: "select", Where: kpre}
				case 1:
					st = &Stmt{Kind: "select", Fields: []Field{{E: AKey()}, n}, Where: ABin("&", kpre, ABin(">", AName("n"), AInt(2))), Order: []Ord{{F: 2, Desc: true}, {F: 1}}, Lim: Lim{Has: true, S: 0, N: 3}}
					if r.Intn(2) == 0 {
						st.Lim = Lim{} // drained to the end: the order node itself sees the end of its input
						st.Where = kpre
					}
				case 2:
					st = &Stmt{Kind: "select", Fields: []Field{{E: ACall("count", AInt(1)), Nm: "c"}, {E: ACall("sum", ACall("int", AVal())), Nm: "s"}}, Where: kpre}
				case 3:
					st = &Stmt{Kind: "select", Fields: []Field{{E: AVal(), Nm: "g"}, {E: ACall("count", AInt(1)), Nm: "c"}, {E: ACall("group_concat", AKey(), AStr(",")), Nm: "ks"}},
						Where: ABetween(AKey(), pre, AStr(fmt.Sprintf("r%02dz", reg))), Group: []int{1}}
				case 4:
					st = &Stmt{Kind: "select", Where: AIn(AKey(), AStr(fmt.Sprintf("r%02dk1", reg)), AStr(fmt.Sprintf("r%02dk4", reg)), AStr("nokey"))}
				case 5:
					if r.Intn(2) == 0 {
						// a different pattern per statement: any cache of compiled patterns is written concurrently
						st = &Stmt{Kind: "select", Where: ABin("&", kpre, ABin("~=", AKey(), AStr(fmt.Sprintf("^r%02dk[0-%d]$", reg, 1+r.Intn(4)))))}
					} else {
						st = &Stmt{Kind: "select", Fields: []Field{{E: AKey()}, {E: ACall("upper", AVal()), Nm: "u"}}, Where: ABin("&", kpre, ABin("~=", AName("u"), AStr("^[0-3]")))}
					}
				case 6:
					st = &Stmt{Kind: "put", Pairs: []PutPair{{AStr(fmt.Sprintf("r%02dnew", reg)), AStr("v")}, {AStr(fmt.Sprintf("r%02dk1", reg)), ACall("upper", ABin("+", AStr("x"), AKey()))}}}
					if theme == 6 {
						// several long PUT statements at once (each on its own region): whatever stages the pairs before the
						// storage takes them belongs to one statement
						np := 8 + r.Intn(40)
						st.Pairs = st.Pairs[:0]
						for i := 0; i < np; i++ {
							st.Pairs = append(st.Pairs, PutPair{AStr(fmt.Sprintf("r%02dp%02d", reg, i%37)), ACall("upper", ABin("+", AStr(fmt.Sprintf("v%d_", i)), AKey()))})
						}
					}
				case 7:
					st = &Stmt{Kind: "delete", Where: ABin("&", kpre, ABin(">", ACall("int", AVal()), AInt(2)))}
				case 8:
					st = &Stmt{Kind: "remove", Keys: []*Node{AStr(fmt.Sprintf("r%02dk1", reg)), AStr(fmt.Sprintf("r%02dk2", reg))}}
				case 100:
					// a statement cut off in the middle: refused; the caller binds ITS query to the error and prints it
					raw = []string{"select * where key ^= 'r%02d' &", "select * where key ^= 'r%02d' | value in", "put ('r%02dk'", "select * where key = 'r%02d' & !",
						"select key as where key ^= 'r%02d'", "delete where key ^= 'r%02d' limit", "select * where nosuchfn(key) = 'r%02d'", "select * where key ^= 'r%02d' and (value = 'x'",
						"select key where key ^= 'r%02d' & count(value) > 1", "select key, value where key ^= 'r%02d' & sum(int(value)) = 3"}[r.Intn(10)]
					raw = fmt.Sprintf(raw, reg)
					st = &Stmt{Kind: "select", Where: kpre} // placeholder for the record (kind select: no effect on the store)
				case 101:
					// a JSON member of every pair of the statement's own region (documents differ per region and pair)
					st = &Stmt{Kind: "select", Fields: []Field{{E: AKey()}, {E: AIdx(ACall("json", AVal()), AStr("a")), Nm: "a"}, {E: AIdx(ACall("json", AVal()), AStr("n")), Nm: "n"}},
						Where: ABin("^=", AKey(), AStr(fmt.Sprintf("j%02d", reg)))}
				case 102:
					st = &Stmt{Kind: "select", Fields: []Field{{E: ACall("group_concat", AIdx(ACall("json", AVal()), AStr("a")), AStr(",")), Nm: "as"}, {E: ACall("count", AInt(1)), Nm: "c"}},
						Where: ABin("^=", AKey(), AStr(fmt.Sprintf("j%02d", reg)))}
				case 106:
					// Boolean literals as operands (left of = / !=, under !): constants every statement has of its own
					w := []*Node{ABin("=", ABool(true), ACall("is_int", AVal())), ABin("!=", ABool(false), ABin(">", ACall("int", AVal()), AInt(2))),
						ANot(ABin("=", ABool(false), ACall("is_int", AKey()))), ABin("=", ABin("^=", AKey(), pre), ABool(true))}[r.Intn(4)]
					st = &Stmt{Kind: "select", Where: ABin("&", kpre, w)}
				case 105:
					// constant calls that differ only in where their quotes sit: join('-', 'a', 'b') and join("-', 'a", 'b')
					// (nothing derived from the printed form of one statement may serve another)
					var jf *Node
					if g%2 == 0 {
						jf = ACall("join", AStr("-"), AStr("a"), AStr("b"))
					} else {
						jf = ACall("join", AStr("-', 'a"), AStr("b"))
					}
					st = &Stmt{Kind: "select", Fields: []Field{{E: AKey()}, {E: jf, Nm: "j"}, {E: ACall("upper", ABin("+", AStr("x"), AStr(fmt.Sprint(g%2))))}}, Where: kpre}
				case 104:
					// aggregates filtered through a select-field name: the SAME name `n` with a different meaning in each
					// statement, over one of two shared regions (readers may share a region), so the same keys are evaluated
					// under the same name by several statements
					reg = g % 2
					for t := 0; t < 16 && writerRegion[reg]; t++ {
						reg = (reg + 1) % 16
					}
					pre = AStr(fmt.Sprintf("r%02d", reg))
					kpre = ABin("^=", AKey(), pre)
					defs := []*Node{ACall("int", AVal()), ACall("strlen", AKey()), ABin("*", ACall("int", AVal()), AInt(2)), ABin("+", ACall("int", AVal()), AInt(3))}
					nd := Field{E: defs[r.Intn(len(defs))], Nm: "n"}
					st = &Stmt{Kind: "select", Fields: []Field{{E: AVal(), Nm: "g"}, nd, {E: ACall("count", AInt(1)), Nm: "c"}, {E: ACall("sum", AName("n")), Nm: "s"}},
						Where: ABin("&", kpre, ABin(">", AName("n"), AInt(1+r.Intn(3)))), Group: []int{1, 2}}
				case 103:
					// a DELETE whose clause no key can satisfy (disjoint prefixes / equalities): it touches nothing, like a reader
					if r.Intn(2) == 0 {
						st = &Stmt{Kind: "delete", Where: ABin("&", kpre, ABin("^=", AKey(), AStr(fmt.Sprintf("q%02d", reg))))}
					} else {
						st = &Stmt{Kind: "delete", Where: ABin("&", ABin("=", AKey(), AStr(fmt.Sprintf("r%02dk1", reg))), ABin("=", AKey(), AStr(fmt.Sprintf("r%02dk2", reg))))}
					}
				default:
					st = &Stmt{Kind: "delete", Where: kpre, Lim: Lim{Has: true, S: 1, N: 3}}
				}
				if kind >= 6 && kind < 100 {
					writerRegion[reg] = true
				} else {
					readerRegion[reg] = true
				}
				st.fix()
				stmts = append(stmts, st)
				if raw == "" {
					raw = st.Text()
				}
				texts = append(texts, raw)
				q += raw + " || "
			}
			// the same text on two or three goroutines at once (readers only): nothing may be shared between statements,
			// not even between identical ones
			if len(stmts) >= 1 && r.Intn(3) == 0 {
				for tries := 0; tries < 4; tries++ {
					j := r.Intn(len(stmts))
					if stmts[j].Kind != "select" && !strings.Contains(texts[j], "^= 'q") {
						continue
					}
					for c := 1 + r.Intn(2); c > 0; c-- {
						stmts = append(stmts, stmts[j])
						texts = append(texts, texts[j])
						q += texts[j] + " || "
					}
					break
				}
			}
			if len(stmts) < 2 {
				continue
			}
			out.Stats.Cases++
			out.Stats.distinct(q, true)
			if i%97 == 0 {
				out.Stats.sample(map[string]any{"goroutines": len(stmts), "statements": q})
			}
			bsz := []int{1, 2, 3, 32}[r.Intn(4)]
			// every statement alone first (sequentially, each on its own copy of the initial store, in the mode it will run in)
			// the iteration mode of every statement is drawn independently (a themed round then has the kind in both modes, and
			// often twice in the same one)
			modes := make([]string, len(texts))
			for p := range modes {
				modes[p] = []string{"row", "batch", "batch"}[r.Intn(3)]
			}
			alone := make([]concResult, len(texts))
			runAlone := func() {
				for p := range texts {
					o, _ := RunOn(texts[p], kvOf(sp), RunOpts{Mode: modes[p%len(modes)], BSize: bsz, Cache: true, NoLog: true})
					alone[p] = concResult{Phase: o.Phase, Rows: o.Rows}
					if o.err != nil {
						alone[p].Rendered, _ = BindAndRender(o.err, texts[p], -1)
					}
				}
			}
			// the reference runs come AFTER the concurrent run in two rounds out of three: run first, they would warm up
			// whatever the library keeps between statements and the concurrent run would only ever read it
			aloneFirst := i%3 == 0
			if aloneFirst {
				runAlone()
			}
			type concOut struct {
				log     []Event
				results []concResult
			}
			ch := make(chan concOut, 1)
			go func() {
				l, rs, _, _ := runConcurrent(sp, texts, nil, bsz, modes)
				ch <- concOut{l, rs}
			}()
			var log []Event
			var results []concResult
			select {
			case co := <-ch:
				log, results = co.log, co.results
			case <-time.After(60 * time.Second):
				// the statements of this round block each other (or one never returns): nothing more can be run in this process
				out.Finding(Finding{Prop: c.prop, Kind: "concurrent-statements-never-finish", CaseID: id, Query: q, Detail: "the round did not finish within 60s"})
				out.Stats.Evaluations++
				out.Close()
				os.Exit(0)
			}
			if !aloneFirst {
				runAlone()
			}
			for p := range results {
				results[p].HasAlone, results[p].AlonePhase, results[p].AloneRows, results[p].AloneRendered = true, alone[p].Phase, alone[p].Rows, alone[p].Rendered
				if results[p].AloneRows == nil {
					results[p].AloneRows = [][]Val{}
				}
			}
			out.Stats.Evaluations++
			out.Trace("conc", concTrace{ID: id, Q: q, Store: sp, Stmts: stmts, Events: concEventsOnly(log), Results: results, Sched: []int{}})
		}
		runtime.GOMAXPROCS(runtime.NumCPU())
	}
}

var _ = json.Marshal
