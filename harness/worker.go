package main

func workerMain(args []string) {}
