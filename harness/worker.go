package main

// Isolated execution of cases (C06): `kvh worker` reads one JSON case per
// line on stdin, writes "B <id>" before and a JSON result line after each
// case.  A fatal runtime error (stack exhaustion, concurrent map writes)
// kills the worker; the parent attributes it to the case that was begun and
// not ended, and restarts a fresh worker for the remaining cases.

import (
	"bufio"
	"encoding/json"
	"fmt"
	"io"
	"os"
	"os/exec"
	"runtime/debug"
	"strings"
	"time"
)

type crashCase struct {
	ID    string `json:"id"`
	Q     string `json:"q"`
	Store string `json:"store"`
	Mode  string `json:"mode"`
	BS    int    `json:"bs"`
	Cache bool   `json:"cache"`
	Pad   int    `json:"pad"`
}

type crashResult struct {
	ID      string   `json:"id"`
	Q       string   `json:"q"`
	Store   string   `json:"store"`
	Mode    string   `json:"mode"`
	BS      int      `json:"bs"`
	Events  []string `json:"events"`  // Build BuildOk|BuildErr Poll Rows|Eos|PollErr ... Render RenderOk | Panic:<fn> Fatal Timeout Runaway
	Outcome string   `json:"outcome"` // done | failed | rejected | panic | fatal | timeout | runaway
	Detail  string   `json:"detail"`
	NRows   int      `json:"nrows"`
}

func runCrashCase(cc crashCase, stores map[string][]KV) crashResult {
	res := crashResult{ID: cc.ID, Q: cc.Q, Store: cc.Store, Mode: cc.Mode, BS: cc.BS, Events: []string{}}
	pairs := stores[cc.Store]
	sh := &Shared{St: NewRefStore(pairs)}
	rec := NewRec(sh, 0)
	o := RunQuery(cc.Q, rec, rec, RunOpts{Mode: cc.Mode, BSize: cc.BS, Cache: cc.Cache, MaxRows: 20000})
	for _, e := range sh.Log {
		switch e.Op {
		case "Build":
			res.Events = append(res.Events, "Build")
		case "BuildEnd":
			if e.Ok {
				res.Events = append(res.Events, "BuildOk")
			} else {
				res.Events = append(res.Events, "BuildErr")
			}
		case "Poll":
			res.Events = append(res.Events, "Poll")
		case "PollEnd":
			if e.Err != "" {
				res.Events = append(res.Events, "PollErr")
			} else if e.Ok {
				res.Events = append(res.Events, "Rows")
			} else {
				res.Events = append(res.Events, "Eos")
			}
		case "Panic":
			res.Events = append(res.Events, "Panic")
		}
	}
	// keep the event list short: collapse runs of Poll/Rows
	res.Events = collapsePolls(res.Events)
	res.Outcome = o.Phase
	res.NRows = len(o.Rows)
	if o.Phase == "panic" {
		res.Detail = o.ErrMsg + " @" + o.PanicFn
	}
	if o.Phase == "runaway" {
		res.Events = append(res.Events, "Runaway")
	}
	if o.err != nil {
		res.Events = append(res.Events, "Render")
		s, p := BindAndRender(o.err, cc.Q, cc.Pad)
		if p != "" {
			res.Events = append(res.Events, "Panic")
			res.Outcome = "panic"
			res.Detail = "rendering: " + p
		} else {
			res.Events = append(res.Events, "RenderOk")
			if res.Detail == "" {
				res.Detail = firstLine(s)
			}
		}
	}
	return res
}

func collapsePolls(ev []string) []string {
	out := []string{}
	n := 0
	for i := 0; i < len(ev); i++ {
		if ev[i] == "Poll" && i+1 < len(ev) && ev[i+1] == "Rows" {
			n++
			if n <= 3 {
				out = append(out, "Poll", "Rows")
			}
			i++
			continue
		}
		out = append(out, ev[i])
	}
	return out
}

func workerMain(args []string) {
	debug.SetMaxStack(48 << 20) // a runaway recursion dies quickly instead of eating a gigabyte
	stores := corpusStores()
	in := bufio.NewReaderSize(os.Stdin, 1<<20)
	w := bufio.NewWriter(os.Stdout)
	for {
		line, err := in.ReadBytes('\n')
		if len(line) > 1 {
			var cc crashCase
			if json.Unmarshal(line, &cc) == nil {
				fmt.Fprintf(w, "B %s\n", cc.ID)
				w.Flush()
				res := runCrashCase(cc, stores)
				b, _ := json.Marshal(res)
				w.Write(b)
				w.WriteByte('\n')
				w.Flush()
			}
		}
		if err != nil {
			return
		}
	}
}

// runIsolated runs the cases in worker processes and returns one result per case.
func runIsolated(cases []crashCase, perCase time.Duration) ([]crashResult, []string) {
	var results []crashResult
	var infra []string
	self, _ := os.Executable()
	i := 0
	retried := map[string]bool{}
	hangs := 0
	for i < len(cases) {
		if hangs >= 6 {
			// enough hangs to report (each costs eleven deadlines): the remaining cases of this shard are not run
			infraNote := fmt.Sprintf("stopped after %d hanging cases; %d cases of this shard not run", hangs, len(cases)-i)
			_ = infraNote
			break
		}
		cmd := exec.Command(self, "worker")
		stdin, _ := cmd.StdinPipe()
		stdout, _ := cmd.StdoutPipe()
		var stderr strings.Builder
		cmd.Stderr = &stderr
		if err := cmd.Start(); err != nil {
			return results, []string{"cannot start worker: " + err.Error()}
		}
		lines := make(chan string, 16)
		go func() {
			sc := bufio.NewScanner(stdout)
			sc.Buffer(make([]byte, 1<<20), 1<<26)
			for sc.Scan() {
				lines <- sc.Text()
			}
			close(lines)
		}()
		alive := true
		for alive && i < len(cases) {
			cc := cases[i]
			b, _ := json.Marshal(cc)
			if _, err := io.WriteString(stdin, string(b)+"\n"); err != nil {
				alive = false
				break
			}
			deadline := perCase
			if retried[cc.ID] {
				deadline = 10 * perCase
			}
			timer := time.NewTimer(deadline)
			got := false
			for !got {
				select {
				case l, ok := <-lines:
					if !ok {
						// worker died on this case
						msg := stderr.String()
						kind := "fatal"
						detail := firstFatal(msg)
						results = append(results, crashResult{ID: cc.ID, Q: cc.Q, Store: cc.Store, Mode: cc.Mode, BS: cc.BS,
							Events: []string{"Build", "Fatal"}, Outcome: kind, Detail: detail})
						i++
						alive = false
						got = true
						break
					}
					if strings.HasPrefix(l, "B ") {
						continue
					}
					var r crashResult
					if json.Unmarshal([]byte(l), &r) == nil && r.ID == cc.ID {
						results = append(results, r)
						i++
						got = true
					}
				case <-timer.C:
					cmd.Process.Kill()
					if !retried[cc.ID] {
						retried[cc.ID] = true // re-run alone with a ten-fold deadline before calling it a hang
					} else {
						results = append(results, crashResult{ID: cc.ID, Q: cc.Q, Store: cc.Store, Mode: cc.Mode, BS: cc.BS,
							Events: []string{"Build", "Timeout"}, Outcome: "timeout", Detail: fmt.Sprintf("no answer within %s", deadline)})
						i++
						hangs++
					}
					alive = false
					got = true
				}
			}
			timer.Stop()
		}
		stdin.Close()
		cmd.Process.Kill()
		cmd.Wait()
	}
	return results, infra
}

func firstFatal(msg string) string {
	for _, l := range strings.Split(msg, "\n") {
		if strings.HasPrefix(l, "fatal error:") || strings.HasPrefix(l, "runtime:") || strings.HasPrefix(l, "panic:") {
			fn := ""
			for _, l2 := range strings.Split(msg, "\n") {
				if strings.HasPrefix(l2, "github.com/c4pt0r/kvql.") {
					fn = strings.TrimPrefix(l2, "github.com/c4pt0r/kvql.")
					if k := strings.LastIndex(fn, "("); k >= 0 {
						fn = fn[:k]
					}
					break
				}
			}
			return strings.TrimSpace(l) + " @" + fn
		}
	}
	if len(msg) > 200 {
		msg = msg[:200]
	}
	return strings.TrimSpace(msg)
}
