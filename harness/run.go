package main

// Running one statement in the real engine and observing everything the
// properties talk about.

import (
	"time"
	"errors"
	"fmt"
	"runtime/debug"
	"strings"

	"github.com/c4pt0r/kvql"
)

type RunOpts struct {
	Mode     string // "row" | "batch"
	BSize    int
	Cache    bool
	FaultAt  int
	MaxRows  int
	P        int  // session id
	NoLog    bool // do not record storage events
	PollsAfterEnd int // extra polls after the end of stream (C12)
	AltModes string // optional: per-poll mode string e.g. "rbbr" (r=Next b=Batch), cycles
	NoGlobals bool  // do not touch the package-level knobs (concurrent runs)
	PollsAfterFail int // keep polling this many times after a poll returned an error (C12/C13: nothing is written again)
}

type PlanInfo struct {
	Final string  `json:"final"` // outermost plan node type
	Scan  string  `json:"scan"`  // EMPTY MGET PREFIX RANGE FULL REMOVE PUT NONE
	Keys  [][]int `json:"keys"`  // MGET / REMOVE keys
	Lo    []int   `json:"lo"`    // PREFIX prefix or RANGE start
	Hi    []int   `json:"hi"`
	HasLo bool    `json:"haslo"`
	HasHi bool    `json:"hashi"`
	Chain []string `json:"chain"`
}

type Outcome struct {
	Phase   string    `json:"phase"` // rejected | done | failed | panic | runaway
	ErrKind string    `json:"errkind"` // "" syntax execute fault other
	ErrPos  int       `json:"errpos"`
	ErrMsg  string    `json:"errmsg"`
	Rows    [][]Val   `json:"rows"`
	Fields  []string  `json:"fields"`
	Plan    PlanInfo  `json:"plan"`
	Explain []string  `json:"explain"`
	Polls   int       `json:"polls"`
	PanicFn string    `json:"panicfn"`
	Rendered string   `json:"-"`
	err     error
}

func errKind(err error) (string, int) {
	if err == nil {
		return "", 0
	}
	if errors.Is(err, ErrInjected) {
		return "fault", 0
	}
	var se *kvql.SyntaxError
	if errors.As(err, &se) {
		return "syntax", se.Pos
	}
	var ee *kvql.ExecuteError
	if errors.As(err, &ee) {
		return "execute", ee.Pos
	}
	return "other", 0
}

func describePlan(fp kvql.FinalPlan) PlanInfo {
	pi := PlanInfo{Keys: [][]int{}, Lo: []int{}, Hi: []int{}, Scan: "NONE", Chain: []string{}}
	var child kvql.Plan
	cur := fp
	for cur != nil {
		pi.Chain = append(pi.Chain, fmt.Sprintf("%T", cur))
		switch p := cur.(type) {
		case *kvql.FinalLimitPlan:
			cur = p.ChildPlan
			continue
		case *kvql.FinalOrderPlan:
			cur = p.ChildPlan
			continue
		case *kvql.ProjectionPlan:
			child = p.ChildPlan
		case *kvql.AggregatePlan:
			child = p.ChildPlan
		case *kvql.DeletePlan:
			child = p.ChildPlan
		case *kvql.RemovePlan:
			pi.Scan = "REMOVE"
			for _, k := range p.Keys {
				if se, ok := k.(*kvql.StringExpr); ok {
					pi.Keys = append(pi.Keys, bi([]byte(se.Data)))
				}
			}
		case *kvql.PutPlan:
			pi.Scan = "PUT"
		}
		break
	}
	if len(pi.Chain) > 0 {
		pi.Final = pi.Chain[0]
	}
	for child != nil {
		pi.Chain = append(pi.Chain, fmt.Sprintf("%T", child))
		switch p := child.(type) {
		case *kvql.LimitPlan:
			child = p.ChildPlan
			continue
		case *kvql.EmptyResultPlan:
			pi.Scan = "EMPTY"
		case *kvql.FullScanPlan:
			pi.Scan = "FULL"
		case *kvql.MultiGetPlan:
			pi.Scan = "MGET"
			for _, k := range p.Keys {
				pi.Keys = append(pi.Keys, bi([]byte(k)))
			}
		case *kvql.PrefixScanPlan:
			pi.Scan = "PREFIX"
			pi.Lo = bi([]byte(p.Prefix))
			pi.HasLo = true
		case *kvql.RangeScanPlan:
			pi.Scan = "RANGE"
			if p.Start != nil {
				pi.Lo = bi(p.Start)
				pi.HasLo = true
			}
			if p.End != nil {
				pi.Hi = bi(p.End)
				pi.HasHi = true
			}
		default:
			pi.Scan = "OTHER"
		}
		break
	}
	return pi
}

func topKvqlFrame(stack string) string {
	for _, line := range strings.Split(stack, "\n") {
		line = strings.TrimSpace(line)
		if strings.HasPrefix(line, "github.com/c4pt0r/kvql.") {
			fn := strings.TrimPrefix(line, "github.com/c4pt0r/kvql.")
			if i := strings.LastIndex(fn, "("); i >= 0 {
				fn = fn[:i]
			}
			return fn
		}
	}
	return ""
}

// RunQuery builds and drains a plan for query q over storage st.
func RunQuery(q string, st kvql.Storage, rec *Rec, o RunOpts) (out Outcome) {
	out.Rows = [][]Val{}
	out.Fields = []string{}
	out.Explain = []string{}
	out.Plan = PlanInfo{Keys: [][]int{}, Lo: []int{}, Hi: []int{}, Scan: "NONE", Chain: []string{}}
	if o.MaxRows == 0 {
		o.MaxRows = 200000
	}
	if !o.NoGlobals {
		if o.BSize > 0 {
			kvql.PlanBatchSize = o.BSize
		}
		kvql.EnableFieldCache = o.Cache
	}
	defer func() {
		if r := recover(); r != nil {
			out.Phase = "panic"
			out.ErrMsg = fmt.Sprint(r)
			out.PanicFn = topKvqlFrame(string(debug.Stack()))
			if rec != nil && !o.NoLog {
				ev := newEv(o.P, "Panic")
				rec.Mark(ev)
			}
		}
	}()
	mark := func(op string, ok bool, n int, e string) {
		if rec != nil && !o.NoLog {
			ev := newEv(o.P, op)
			ev.Ok, ev.N, ev.Err = ok, n, e
			rec.Mark(ev)
		}
	}
	mark("Build", false, 0, "")
	opt := kvql.NewOptimizer(q)
	plan, err := opt.BuildPlan(st)
	if err != nil {
		out.Phase = "rejected"
		out.err = err
		out.ErrKind, out.ErrPos = errKind(err)
		out.ErrMsg = err.Error()
		mark("BuildEnd", false, 0, out.ErrKind)
		return
	}
	mark("BuildEnd", true, 0, "")
	out.Fields = append(out.Fields, plan.FieldNameList()...)
	out.Plan = describePlan(plan)
	out.Explain = plan.Explain()
	ctx := kvql.NewExecuteCtx()
	after := 0
	for {
		useBatch := o.Mode == "batch"
		if o.AltModes != "" {
			useBatch = o.AltModes[out.Polls%len(o.AltModes)] == 'b'
		}
		mark("Poll", useBatch, 0, "")
		out.Polls++
		var rows [][]kvql.Column
		if useBatch {
			rows, err = plan.Batch(ctx)
		} else {
			var r []kvql.Column
			r, err = plan.Next(ctx)
			if r != nil {
				rows = [][]kvql.Column{r}
			}
		}
		if err != nil {
			out.Phase = "failed"
			out.err = err
			out.ErrKind, out.ErrPos = errKind(err)
			out.ErrMsg = err.Error()
			mark("PollEnd", false, len(rows), out.ErrKind)
			if o.PollsAfterFail > 0 {
				mark("Repoll", false, 0, "")
				func() {
					defer func() { recover() }() // what a failed plan does when polled again is judged by its storage calls only
					for i := 0; i < o.PollsAfterFail; i++ {
						mark("Poll", i%2 == 1, 0, "")
						var e2 error
						if i%2 == 1 {
							_, e2 = plan.Batch(ctx)
						} else {
							_, e2 = plan.Next(ctx)
						}
						k, _ := errKind(e2)
						mark("PollEnd", false, 0, k)
					}
				}()
			}
			return
		}
		mark("PollEnd", len(rows) > 0, len(rows), "")
		if len(rows) == 0 {
			if after >= o.PollsAfterEnd {
				break
			}
			after++
			continue
		}
		for _, r := range rows {
			out.Rows = append(out.Rows, EncodeRow(r))
		}
		if len(out.Rows) > o.MaxRows || out.Polls > 4*o.MaxRows {
			out.Phase = "runaway"
			return
		}
	}
	out.Phase = "done"
	return
}

// BindAndRender binds the query to a returned error and renders it (C06/C17).
func BindAndRender(err error, q string, pad int) (s string, panicked string) {
	defer func() {
		if r := recover(); r != nil {
			panicked = fmt.Sprint(r) + " @" + topKvqlFrame(string(debug.Stack()))
		}
	}()
	if qb, ok := err.(kvql.QueryBinder); ok {
		qb.BindQuery(q)
		if pad >= 0 {
			qb.SetPadding(pad)
		}
	}
	return err.Error(), ""
}

// Convenience: run over a fresh recording store holding pairs.
// Hangs counts the runs that did not come back within the watchdog's deadline (the goroutine is abandoned).
var Hangs int

func RunOn(q string, pairs []KV, o RunOpts) (Outcome, *Shared) {
	sh := &Shared{St: NewRefStore(pairs), FaultAt: o.FaultAt, Quiet: o.NoLog}
	rec := NewRec(sh, o.P)
	done := make(chan Outcome, 1)
	go func() { done <- RunQuery(q, rec, rec, o) }()
	select {
	case out := <-done:
		return out, sh
	case <-time.After(20 * time.Second):
		// a call that never returns (a loop inside one Next/Batch call): reported, the statement is given up
		Hangs++
		out := Outcome{Phase: "runaway", ErrMsg: "no answer within 20s (a single Next/Batch/BuildPlan call does not return)", Rows: [][]Val{}, Fields: []string{}, Explain: []string{},
			Plan: PlanInfo{Keys: [][]int{}, Lo: []int{}, Hi: []int{}, Scan: "NONE", Chain: []string{}}}
		return out, &Shared{St: NewRefStore(pairs), Quiet: true}
	}
}
