package main

// Statement corpus shared by the robustness (C06) and error-position (C17)
// families: hand-written valid statements covering every clause and
// function, every query string literal found in the repository's own tests
// and documents (harvested at run time), and single-edit corruptions.

import (
	"math/rand"
	"os"
	"path/filepath"
	"regexp"
	"strings"
)

var baseCorpus = []string{
	"select * where key ^= 'k'",
	"select key, int(value) + 1 where key in ('k1', 'k2', 'k3') & is_int(value)",
	"select count(1), sum(int(value)) as sum, substr(key, 0, 2) as kprefix where key between 'k' and 'l' group by kprefix order by sum desc",
	"select key, json(value)['x']['y'] where key ^= 'k' & int(json(value)['test']) >= 1",
	"select a + 1 as b, b + 1 as a where key ^= 'k'",
	"select upper(u) as u, lower(u) as l where key = 'k1' | l = 'x'",
	"select int(value) + z as x, x * 2 as y, y - 1 as z where key ^= 'k' & x > 0",
	"select key, json(value)['list'][1] where key ^= 'k'",
	"select key, int(value) as f1 where f1 > 10",
	"select key, split(value, ',') as f1 where 'a' in f1",
	"select key, value, l2_distance(list(1,2,3,4), json(value)) as l2_dis where key ^= 'embedding_json' & l2_dis > 0.6 order by l2_dis desc limit 5",
	"put ('k1', 'v1'), ('k2', upper('v' + key))",
	"delete where key ^= 'prefix' and value ~= '^val_' limit 10",
	"delete where key in ('k1', 'k2', 'k3')",
	"remove 'k1', 'k2'",
	"select key, ((int(value) + 1) * 8) where key ^= \"prefix\"",
	"select key, l2_distance(list(1,2,3,4), split(value, \",\")) where key ^= \"prefix\"",
	"select key, list(1,2,3,4)[2] where key ^= \"prefix\"",
	"select * where key ~= \"^key[0-9]+$\"",
	"select key, substr(value, 2, 3) as mid, value where mid between \"b\" and \"e\"",
	"select * where key ^= \"num\" & int(value) + 1 > 10",
	"select * where key ^= \"json\" & json(value)[\"user\"] = \"Bob\"",
	"select key, int(value) as snum where key ^= \"prefix\" order by snum asc, key asc",
	"select * where key ^= \"prefix\" limit 10, 10",
	"select count(1), substr(key, 3, 4) as pk where key ^= \"k_\" group by pk",
	"put (\"k3\", upper(\"value3\")), (\"k4\", join(\",\", 1, 2, 3, 4))",
	"where key = 'k1' | !(value ^= 'v')",
	"select upper(value) as u, lower(key) as l, strlen(u) as n where n >= 0 & l != '' order by n desc, l limit 1, 3",
	"select key, float(value) * 1.5 - 2 / 4, str(int(value)), is_float(value) where float(value) >= 0.5 or key > 'k3'",
	"select value, count(1) as c, avg(int(value)), min(int(value)), max(float(value)), group_concat(key, ','), json_arrayagg(key), quantile(float(value), 0.5) where key ^= 'k' group by value order by c desc limit 3",
	"select key, cosine_distance(float_list(1, 0.5), int_list(2, 1)), len(flist(1)), ilist(1, 2)[1] where key >= 'k1' & key <= 'k8'",
	"select key, join('-', key, value, 1, 2.5), split(value, '')[0] where 'k1' < key & key between 'a' and 'z'",
	"select * where value in ('1', '2', 'x') | key = 'k2' | key = 'k4';",
	"select * where (key ^= 'k' & (value = '1' | value = '2')) and !(key = 'k3')",
	"delete where key > 'k2' & key < 'k7' limit 1, 2",
	"remove 'k' + '1', upper('k2'), 7",
	"put ('a' + 'b', strlen(key)), (lower('K9'), key + '_' + key)",
	"select key, substr(key, 1, 2), substr(value, 0, 100) where key ^= ''",
	"select `key`, key as `my key` where `my key` ^= 'k'",
	"select json(value) as j, j['a'] where key ^= 'j'",
	// a chain of select fields each built twice on the one before (parsing it must not take time exponential in its length;
	// evaluation is linear with the field cache and 2^14 per row without it)
	"select strlen(key) as a0, a0+a0 as a1, a1+a1 as a2, a2+a2 as a3, a3+a3 as a4, a4+a4 as a5, a5+a5 as a6, a6+a6 as a7, a7+a7 as a8, a8+a8 as a9, a9+a9 as a10, a10+a10 as a11, a11+a11 as a12, a12+a12 as a13, a13+a13 as a14 where a14 > 0 & key ^= 'k'",
	"select key as a, a, value as a, upper(a) as b, b where a ^= 'k' order by b",
	"select * where key in ('k1', 'k2', 'k1', 'k3', 'k2') | key = 'k1'",
	"delete where key in ('k2', 'k2', 'k9', 'k2') & value != ''",
	"select substr(key, 0, 1) as p, count(1), sum(int(value)) where key ^= 'k' group by p limit 40, 5",
	// numbers below zero (the language has no negative literal) in every position that takes a number
	"select substr(value, 0 - 1, 2), substr(value, 1, 0 - 2), list(1, 2)[0 - 1], split(value, ',')[0 - 1], int(value) / (0 - 1) where key ^= 'k' limit 0, 0",
	"select quantile(int(value), 0 - 0.5), quantile(float(value), 0), quantile(int(value), 1) where key ^= 'k'",
	"select value, quantile(int(value), 1 - 0.5) as q, sum(0 - int(value)), min(0 - 1.5), avg(int(value) * (0 - 1)) where key ^= 'k' group by value order by q",
}

var (
	goStrRe = regexp.MustCompile("(?s)\"((?:[^\"\\\\\\n]|\\\\.){8,300})\"|`([^`]{8,300})`")
	mdRe    = regexp.MustCompile(`(?m)^(select|put|delete|remove|where) .*$`)
)

// harvestCorpus collects query-looking string literals from the repository.
func harvestCorpus(repo string) []string {
	var out []string
	seen := map[string]bool{}
	add := func(s string) {
		s = strings.TrimSpace(s)
		ls := strings.ToLower(s)
		if len(s) < 8 || len(s) > 400 || seen[s] {
			return
		}
		if !(strings.HasPrefix(ls, "select") || strings.HasPrefix(ls, "where") || strings.HasPrefix(ls, "put") || strings.HasPrefix(ls, "delete") || strings.HasPrefix(ls, "remove")) {
			return
		}
		seen[s] = true
		out = append(out, s)
	}
	files, _ := filepath.Glob(filepath.Join(repo, "*_test.go"))
	for _, f := range files {
		b, err := os.ReadFile(f)
		if err != nil {
			continue
		}
		for _, m := range goStrRe.FindAllStringSubmatch(string(b), -1) {
			if m[1] != "" {
				add(strings.ReplaceAll(strings.ReplaceAll(m[1], `\"`, `"`), `\\`, `\`))
			} else {
				add(m[2])
			}
		}
	}
	for _, f := range []string{"README.md", "spec.md"} {
		b, err := os.ReadFile(filepath.Join(repo, f))
		if err != nil {
			continue
		}
		for _, m := range mdRe.FindAllString(string(b), -1) {
			add(m)
		}
	}
	return out
}

func fullCorpus() []string {
	repo := os.Getenv("KVQL_REPO")
	if repo == "" {
		repo = "/repo"
	}
	return append(append([]string{}, baseCorpus...), harvestCorpus(repo)...)
}

const corruptBytes = " '\"`=!<>^~+-*/&|()[],;.1a_"

// corrupt applies one random single edit to q.
func corrupt(q string, r *rand.Rand) string {
	if len(q) == 0 {
		return string(corruptBytes[r.Intn(len(corruptBytes))])
	}
	b := []byte(q)
	i := r.Intn(len(b))
	switch r.Intn(6) {
	case 0: // delete a byte
		return string(append(append([]byte{}, b[:i]...), b[i+1:]...))
	case 1: // duplicate a byte
		return string(append(append(append([]byte{}, b[:i+1]...), b[i]), b[i+1:]...))
	case 2: // replace a byte
		b[i] = corruptBytes[r.Intn(len(corruptBytes))]
		return string(b)
	case 3: // insert a byte
		return string(append(append(append([]byte{}, b[:i]...), corruptBytes[r.Intn(len(corruptBytes))]), b[i:]...))
	case 4: // drop a word
		ws := strings.Fields(q)
		if len(ws) > 1 {
			j := r.Intn(len(ws))
			ws = append(ws[:j], ws[j+1:]...)
		}
		return strings.Join(ws, " ")
	default: // truncate
		return q[:i]
	}
}

// corpusStores: data shapes that provoke the executor (C06 quantifier).
func corpusStores() map[string][]KV {
	mk := func(kv ...string) []KV {
		var p []KV
		for i := 0; i+1 < len(kv); i += 2 {
			p = append(p, KV{[]byte(kv[i]), []byte(kv[i+1])})
		}
		return NewRefStore(p).Snapshot()
	}
	big := []string{}
	for i := 0; i < 70; i++ {
		big = append(big, "k"+string(rune('0'+i/10))+string(rune('0'+i%10)), []string{"1", "2.5", "x", "", "10"}[i%5])
	}
	return map[string][]KV{
		"empty":   {},
		"nonnum":  mk("k1", "abc", "k2", "", "k3", "x,y", "k", "z", "prefix1", "val_1", "json1", "nope"),
		"num":     mk("k1", "1", "k2", "2", "k3", "3.5", "k4", "-7", "k5", "0", "k6", "10", "k_7", "1e3", "num1", "9"),
		"json":    mk("k1", `{"x":{"y":1},"test":3,"list":[1,"a",{"q":2}],"user":"Bob"}`, "k2", `{"x":"str","test":"t","list":"nolist"}`, "k3", `[1,2,3]`, "k4", `{"x":null}`, "json9", `{"user":7}`, "embedding_json1", `[0.5,1,1.5,2]`, "j1", `{"a":"s"}`, "j2", `{"a":5}`),
		"binary":  mk("k1", "\xff\xfe", "k\xff", "v", "", "emptykey", "k2", "a\x00b", "a", "\t\n"),
		"extreme": mk("k1", "9223372036854775807", "k2", "-9223372036854775808", "k3", "1e308", "k4", "99999999999999999999", "k5", "NaN", "k6", "Inf", "k7", "0x10", "k8", "1_000"),
		"short":   mk("a", "1", "b", "22", "ab", "", "k", "k"),
		"big":     mk(big...),
	}
}
