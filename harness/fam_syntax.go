package main

// Family "syntax" (C15): operator sequences enumerated by TLC (MCSyntax.tla)
// with the contract's canonical tree rendering, replayed through
// Parser.Parse / Expression.String(); random trees rendered with minimal,
// random and full parenthesisation and random letter case are recorded for
// TraceSyntax.tla, which parses the token sequence with the KvSyntax design
// parser and compares Canon(tree) with the engine's rendering.

import (
	"encoding/json"
	"fmt"
	"math/rand"
	"regexp"
	"strings"

	"github.com/c4pt0r/kvql"
)

type tkJ struct {
	T string `json:"t"`
	V string `json:"v"`
}

type synCase struct {
	Kind  string `json:"kind"`
	Toks  []tkJ  `json:"toks"`
	Canon string `json:"canon"`
	Alias string `json:"alias"` // kind "alias": the select-field name the "ref" tokens refer to
	Bare  bool   `json:"bare"`  // write the references without backquotes (plain lower-case names only)
}

type synTrace struct {
	ID     string `json:"id"`
	Q      string `json:"q"`
	Toks   []tkJ  `json:"toks"`
	Engine string `json:"engine"` // Expression.String() of what the engine parsed ("" = rejected)
	Again  string `json:"again"`  // String() of the re-parse of Engine
	Err    string `json:"err"`
}

func tokText(t tkJ, r *rand.Rand) string {
	v := t.V
	switch t.T {
	case "str":
		return "'" + v + "'"
	case "ref":
		return "`" + v + "`"
	case "bareref":
		return v
	}
	if r != nil && r.Intn(3) == 0 {
		v = strings.ToUpper(v)
	} else if r != nil && r.Intn(4) == 0 && len(v) > 1 {
		v = strings.ToUpper(v[:1]) + v[1:]
	}
	return v
}

var idRe = regexp.MustCompile(`^[a-z_][a-z0-9_]*$`)

func renderToks(toks []tkJ, r *rand.Rand) string {
	var sb strings.Builder
	for i, t := range toks {
		if i > 0 {
			// a space is needed only between two word-like tokens
			prevWord := toks[i-1].T == "id" || toks[i-1].T == "num" || toks[i-1].T == "kw" || toks[i-1].T == "bool" || (toks[i-1].T == "op" && idRe.MatchString(toks[i-1].V))
			curWord := t.T == "id" || t.T == "num" || t.T == "kw" || t.T == "bool" || (t.T == "op" && idRe.MatchString(t.V))
			need := prevWord && curWord
			// two operator characters must not fuse: "! =" , "< =" ...
			if toks[i-1].T == "op" && t.T == "op" && !need {
				need = true
			}
			n := 1
			if r != nil {
				n = r.Intn(3)
			}
			if need && n == 0 {
				n = 1
			}
			sb.WriteString(strings.Repeat(" ", n))
		}
		sb.WriteString(tokText(t, r))
	}
	return sb.String()
}

// parseField parses `select <text> where key = 'x'` and returns the rendering of the field.
func parseField(text string) (s string, errMsg string) {
	defer func() {
		if r := recover(); r != nil {
			errMsg = "panic: " + fmt.Sprint(r)
		}
	}()
	st, err := kvql.NewParser("select " + text + " where key = 'x'").Parse()
	sel, ok := st.(*kvql.SelectStmt)
	if !ok || sel == nil || len(sel.FieldNames) != 1 {
		if err != nil {
			return "", firstLine(err.Error())
		}
		return "", "no select statement"
	}
	return sel.FieldNames[0], ""
}

// parseWhere parses a whole statement (parser + checker, which binds names to select fields) and renders its WHERE.
func parseWhere(q string) (s string, errMsg string) {
	defer func() {
		if r := recover(); r != nil {
			errMsg = "panic: " + fmt.Sprint(r)
		}
	}()
	st, _, err := kvql.BuildExecutor(q)
	if err != nil || st == nil || st.Where == nil {
		if err != nil {
			return "", firstLine(err.Error())
		}
		return "", "no where clause"
	}
	return st.Where.Expr.String(), ""
}

func init() {
	replayFamilies["syntax"] = func(args []string) {
		c := parseCommon("syntax", args, nil)
		out := NewOut(c.out, c.prop)
		defer out.Close()
		idx := 0
		err := readTLCLines(c.in, func(raw []byte) {
			var sc synCase
			if err := json.Unmarshal(raw, &sc); err != nil {
				out.Infra = append(out.Infra, "bad line: "+err.Error())
				return
			}
			if sc.Kind == "alias" {
				idx++
				if (idx-1)%c.shards != c.shard {
					return
				}
				id := shortHash(raw)
				if c.only != "" && c.only != id {
					return
				}
				out.Stats.Cases++
				out.Stats.distinct("alias:"+sc.Alias+":"+sc.Canon, true)
				toks := sc.Toks
				if sc.Bare {
					toks = make([]tkJ, len(sc.Toks))
					for i, t := range sc.Toks {
						if t.T == "ref" {
							t.T = "bareref"
						}
						toks[i] = t
					}
				}
				head := "select key as `" + sc.Alias + "`, value where "
				text := head + renderToks(toks, nil)
				out.Stats.Evaluations++
				got, perr := parseWhere(text)
				if got != sc.Canon {
					out.Finding(Finding{Prop: c.prop, Kind: "tree-differs", CaseID: id, Query: text,
						Detail: fmt.Sprintf("engine=%q err=%q contract=%q", got, perr, sc.Canon)})
					return
				}
				// the printed filter, put back into the same statement, is the same filter
				again, perr2 := parseWhere(head + got)
				if again != got {
					out.Finding(Finding{Prop: c.prop, Kind: "canonical-form-not-a-fixpoint", CaseID: id, Query: head + got,
						Detail: fmt.Sprintf("re-parse=%q err=%q", again, perr2)})
				}
				return
			}
			if sc.Kind != "case" {
				return
			}
			idx++
			if (idx-1)%c.shards != c.shard {
				return
			}
			id := shortHash(raw)
			if c.only != "" && c.only != id {
				return
			}
			out.Stats.Cases++
			out.Stats.distinct(sc.Canon, len(sc.Toks) > 1)
			r := rand.New(rand.NewSource(int64(idx) + envSeed()*7717))
			for variant := 0; variant < 3; variant++ {
				var text string
				if variant == 0 {
					text = renderToks(sc.Toks, nil)
				} else {
					text = renderToks(sc.Toks, r)
				}
				out.Stats.Evaluations++
				got, perr := parseField(text)
				if out.Stats.Cases%4000 == 1 && variant == 1 {
					out.Stats.sample(map[string]any{"text": text, "canon": sc.Canon})
				}
				if got != sc.Canon {
					out.Finding(Finding{Prop: c.prop, Kind: "tree-differs", CaseID: id, Query: text,
						Detail: fmt.Sprintf("engine=%q err=%q contract=%q", got, perr, sc.Canon)})
					continue
				}
				again, perr2 := parseField(got)
				if again != got {
					out.Finding(Finding{Prop: c.prop, Kind: "canonical-form-not-a-fixpoint", CaseID: id, Query: got,
						Detail: fmt.Sprintf("re-parse=%q err=%q", again, perr2)})
				}
			}
		})
		if err != nil {
			out.Infra = append(out.Infra, err.Error())
		}
	}
	recordFamilies["syntax"] = recordSyntax
}

// ---- random trees (syntax level only: names, numbers, strings, key/value, calls, index chains)

type synNode struct {
	k    string // id num str key value bool not call idx list bin
	v    string
	a    []*synNode
}

var synPrec = map[string]int{"|": 1, "or": 1, "&": 2, "and": 2, "=": 3, "!=": 3, "^=": 3, "~=": 3, ">": 3, ">=": 3, "<": 3, "<=": 3, "in": 3, "between": 3, "+": 4, "-": 4, "*": 5, "/": 5}
var synOps = []string{"|", "or", "&", "and", "=", "!=", "^=", "~=", ">", ">=", "<", "<=", "in", "between", "+", "-", "*", "/"}

func randSynLeaf(r *rand.Rand) *synNode {
	switch r.Intn(8) {
	case 0:
		if r.Intn(2) == 0 {
			return &synNode{k: "num", v: []string{"2.0", "0.5", "10.50", "3.25", "100.0"}[r.Intn(5)]}
		}
		return &synNode{k: "num", v: fmt.Sprint(r.Intn(100))}
	case 1:
		return &synNode{k: "str", v: []string{"x", "a b", "and", "<=", "(q)", " x", "x ", " ", "50%", "%d %s", "a,b;c"}[r.Intn(11)]}
	case 2:
		return &synNode{k: "key"}
	case 3:
		return &synNode{k: "value"}
	case 4:
		return &synNode{k: "bool", v: []string{"true", "false"}[r.Intn(2)]}
	default:
		return &synNode{k: "id", v: []string{"a", "b", "cc", "f1", "x_y"}[r.Intn(5)]}
	}
}

func randSynTree(r *rand.Rand, depth int) *synNode {
	if depth <= 0 || r.Intn(5) == 0 {
		return randSynLeaf(r)
	}
	switch r.Intn(10) {
	case 0:
		return &synNode{k: "not", a: []*synNode{randSynTree(r, depth-1)}}
	case 1:
		n := r.Intn(3)
		args := []*synNode{{k: "id", v: []string{"upper", "f", "json", "split"}[r.Intn(4)]}}
		for i := 0; i < n; i++ {
			args = append(args, randSynTree(r, depth-1))
		}
		return &synNode{k: "call", a: args}
	case 2:
		base := &synNode{k: "call", a: []*synNode{{k: "id", v: "json"}, randSynTree(r, depth-2)}}
		var ix *synNode
		if r.Intn(2) == 0 {
			ix = &synNode{k: "str", v: "m"}
		} else {
			ix = &synNode{k: "num", v: fmt.Sprint(r.Intn(4))}
		}
		n := &synNode{k: "idx", a: []*synNode{base, ix}}
		if r.Intn(3) == 0 {
			n = &synNode{k: "idx", a: []*synNode{n, {k: "num", v: "1"}}}
		}
		return n
	}
	op := synOps[r.Intn(len(synOps))]
	l := randSynTree(r, depth-1)
	switch op {
	case "in":
		if r.Intn(3) == 0 {
			// IN over a list-valued call (`key in split(value, ',')`): an ordinary operand of comparison strength
			rhs := &synNode{k: "call", a: []*synNode{{k: "id", v: []string{"split", "list", "f"}[r.Intn(3)]}, randSynTree(r, depth-2), randSynLeaf(r)}}
			return &synNode{k: "bin", v: op, a: []*synNode{l, rhs}}
		}
		n := 1 + r.Intn(3)
		items := make([]*synNode, n)
		for i := range items {
			items[i] = randSynTree(r, depth-2)
		}
		return &synNode{k: "bin", v: op, a: []*synNode{l, {k: "list", a: items}}}
	case "between":
		return &synNode{k: "bin", v: op, a: []*synNode{l, {k: "list", a: []*synNode{randSynTree(r, depth-1), randSynTree(r, depth-1)}}}}
	}
	return &synNode{k: "bin", v: op, a: []*synNode{l, randSynTree(r, depth-1)}}
}

// toks renders the tree; paren: 0 minimal, 1 full, 2 random extra
func (n *synNode) toks(paren int, r *rand.Rand) []tkJ {
	wrap := func(t []tkJ) []tkJ {
		return append(append([]tkJ{{"(", "("}}, t...), tkJ{")", ")"})
	}
	list := func(items []*synNode) []tkJ {
		var o []tkJ
		for i, it := range items {
			if i > 0 {
				o = append(o, tkJ{",", ","})
			}
			o = append(o, it.toks(paren, r)...)
		}
		return o
	}
	extra := func(t []tkJ) []tkJ {
		if paren == 2 && r.Intn(4) == 0 {
			return wrap(t)
		}
		return t
	}
	switch n.k {
	case "id", "num", "bool":
		return extra([]tkJ{{n.k, n.v}})
	case "str":
		return extra([]tkJ{{"str", n.v}})
	case "key":
		return extra([]tkJ{{"kw", "key"}})
	case "value":
		return extra([]tkJ{{"kw", "value"}})
	case "list":
		return wrap(list(n.a))
	case "not":
		inner := n.a[0].toks(paren, r)
		if n.a[0].k == "bin" {
			inner = wrap(inner)
		}
		return extra(append([]tkJ{{"op", "!"}}, inner...))
	case "call":
		return append(append(append(n.a[0].toks(0, r), tkJ{"(", "("}), list(n.a[1:])...), tkJ{")", ")"})
	case "idx":
		return append(append(append(n.a[0].toks(0, r), tkJ{"[", "["}), n.a[1].toks(0, r)...), tkJ{"]", "]"})
	}
	// binary
	p := synPrec[n.v]
	side := func(c *synNode, right bool) []tkJ {
		t := c.toks(paren, r)
		need := false
		if c.k == "bin" {
			cp := synPrec[c.v]
			if right {
				need = cp <= p
			} else {
				need = cp < p
			}
		}
		if need || (paren == 1 && c.k == "bin") {
			return wrap(t)
		}
		return t
	}
	var o []tkJ
	o = append(o, side(n.a[0], false)...)
	o = append(o, tkJ{"op", n.v})
	switch n.v {
	case "between":
		o = append(o, side(n.a[1].a[0], true)...)
		o = append(o, tkJ{"op", "and"})
		o = append(o, side(n.a[1].a[1], true)...)
	case "in":
		o = append(o, n.a[1].toks(paren, r)...)
	default:
		o = append(o, side(n.a[1], true)...)
	}
	if paren == 1 {
		return wrap(o)
	}
	return extra(o)
}

func recordSyntax(args []string) {
	c := parseCommon("syntax", args, nil)
	out := NewOut(c.out, c.prop)
	defer out.Close()
	for i := 0; i < c.n; i++ {
		r := caseRand(c.shard, i)
		tree := randSynTree(r, 1+r.Intn(5))
		paren := r.Intn(3)
		toks := tree.toks(paren, r)
		text := renderToks(toks, r)
		id := fmt.Sprintf("r%d.%d", c.shard, i)
		if c.only != "" && c.only != id {
			continue
		}
		out.Stats.Cases++
		out.Stats.Evaluations++
		got, perr := parseField(text)
		again := ""
		if got != "" {
			again, _ = parseField(got)
		}
		out.Stats.distinct(text, len(toks) > 3)
		if i%1000 == 0 {
			out.Stats.sample(map[string]any{"text": text, "engine_rendering": got})
		}
		out.Trace("syntax", synTrace{ID: id, Q: text, Toks: toks, Engine: got, Again: again, Err: perr})
	}
}
