package main

// Greedy tree shrinking for diagnosis (never for verdicts): repeatedly replace
// a sub-tree by one of its children, or drop list items, while the predicate
// still fails.

func cloneNode(n *Node) *Node {
	c := *n
	c.S = append([]int{}, n.S...)
	c.A = make([]*Node, len(n.A))
	for i, a := range n.A {
		c.A[i] = cloneNode(a)
	}
	return &c
}

// candidates returns smaller variants of n (n itself is not modified).
func candidates(n *Node) []*Node {
	var out []*Node
	// replace root by a child of the same "type class" (only for and/or/not)
	if n.K == "bin" && (n.Op == "&" || n.Op == "|" || n.Op == "and" || n.Op == "or") {
		out = append(out, cloneNode(n.A[0]), cloneNode(n.A[1]))
	}
	if n.K == "list" && len(n.A) > 1 {
		for i := range n.A {
			c := cloneNode(n)
			c.A = append(c.A[:i], c.A[i+1:]...)
			out = append(out, c)
		}
	}
	if n.K == "str" && len(n.S) > 0 {
		c := cloneNode(n)
		c.S = c.S[:len(c.S)-1]
		out = append(out, c)
	}
	for i := range n.A {
		if n.K == "bin" && n.Op == "between" && i == 1 {
			// keep the two bounds; shrink the literals only
			for bi2 := range n.A[1].A {
				for _, sub := range candidates(n.A[1].A[bi2]) {
					c := cloneNode(n)
					c.A[1].A[bi2] = sub
					out = append(out, c)
				}
			}
			continue
		}
		for _, sub := range candidates(n.A[i]) {
			c := cloneNode(n)
			c.A[i] = sub
			out = append(out, c)
		}
	}
	return out
}

func Shrink(n *Node, fails func(*Node) bool) *Node {
	cur := n
	for {
		progressed := false
		for _, c := range candidates(cur) {
			if c.Size() < cur.Size() || len(c.Text()) < len(cur.Text()) {
				if fails(c) {
					cur = c
					progressed = true
					break
				}
			}
		}
		if !progressed {
			return cur
		}
	}
}
