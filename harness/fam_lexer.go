package main

// Family "lexer" (C16): texts enumerated by TLC (MCLexer.tla) with the
// contract's token list are compared with Lexer.Split of the real engine;
// seeded random texts are recorded for TraceLexer.tla.

import (
	"encoding/json"
	"fmt"

	"github.com/c4pt0r/kvql"
)

type tokJ struct {
	Tp   string `json:"tp"`
	Data []int  `json:"data"`
	Pos  int    `json:"pos"`
}

type lexCase struct {
	Kind string `json:"kind"`
	Text []int  `json:"text"`
	Spec bool   `json:"spec"`
	Toks []tokJ `json:"toks"`
}

type lexTrace struct {
	ID    string  `json:"id"`
	Q     string  `json:"q"`
	Text  []int   `json:"text"`
	Toks  []tokJ  `json:"toks"`
	Panic string  `json:"panic"`
}

func engineTokens(text string) (toks []tokJ, panicked string) {
	defer func() {
		if r := recover(); r != nil {
			panicked = fmt.Sprint(r)
		}
	}()
	toks = []tokJ{}
	for _, t := range kvql.NewLexer(text).Split() {
		toks = append(toks, tokJ{Tp: kvql.TokenTypeToString[t.Tp], Data: bi([]byte(t.Data)), Pos: t.Pos})
	}
	return
}

func sameToks(a, b []tokJ, withKind bool) bool {
	if len(a) != len(b) {
		return false
	}
	for i := range a {
		if a[i].Pos != b[i].Pos || string(ib(a[i].Data)) != string(ib(b[i].Data)) {
			return false
		}
		if withKind && a[i].Tp != "?" && b[i].Tp != "?" && a[i].Tp != b[i].Tp {
			return false
		}
	}
	return true
}

func showToks(t []tokJ) string {
	s := ""
	for _, k := range t {
		s += fmt.Sprintf("[%s %q @%d] ", k.Tp, string(ib(k.Data)), k.Pos)
	}
	return s
}

func init() {
	replayFamilies["lexer"] = func(args []string) {
		c := parseCommon("lexer", args, nil)
		out := NewOut(c.out, c.prop)
		defer out.Close()
		idx := 0
		err := readTLCLines(c.in, func(raw []byte) {
			var lc lexCase
			if err := json.Unmarshal(raw, &lc); err != nil {
				out.Infra = append(out.Infra, "bad line: "+err.Error())
				return
			}
			if lc.Kind != "case" {
				return
			}
			idx++
			if (idx-1)%c.shards != c.shard {
				return
			}
			text := string(ib(lc.Text))
			id := fmt.Sprintf("%q", text)
			if c.only != "" && c.only != id {
				return
			}
			out.Stats.Cases++
			out.Stats.Evaluations++
			got, p := engineTokens(text)
			if p != "" {
				out.Finding(Finding{Prop: c.prop, Kind: "lexer-panic", CaseID: id, Query: text, Detail: p})
				return
			}
			if !lc.Spec {
				out.Stats.Unmodelled++
				return
			}
			out.Stats.distinct(id, len(lc.Toks) > 0)
			if out.Stats.Cases%5000 == 1 {
				out.Stats.sample(map[string]any{"text": text, "tokens": showToks(lc.Toks)})
			}
			if !sameToks(got, lc.Toks, true) {
				out.Finding(Finding{Prop: c.prop, Kind: "tokens-differ", CaseID: id, Query: text,
					Detail: fmt.Sprintf("engine: %s contract: %s", showToks(got), showToks(lc.Toks))})
			}
		})
		if err != nil {
			out.Infra = append(out.Infra, err.Error())
		}
	}
	recordFamilies["lexer"] = func(args []string) {
		c := parseCommon("lexer", args, nil)
		out := NewOut(c.out, c.prop)
		defer out.Close()
		pool := []string{"select", "where", "key", "value", "and", "or", "in", "between", "limit", "order", "by", "asc", "desc", "as", "group",
			"put", "remove", "delete", "true", "false", "upper", "int", "x1", "12", "007", "1.5", "0.25", "abc", "K", "Foo_bar", "a.b",
			"=", "!=", "^=", "~=", ">", ">=", "<", "<=", "+", "-", "*", "/", "&", "|", "!", "(", ")", "[", "]", ",", ";",
			"'lit'", "'a b'", "\"q 'x' q\"", "'and'", "`name x`", "'<= !='", "''", "\"\"", "'(a,b)'", "'a+b=c'",
			// literals and quoted names with characters outside ASCII (two- and three-byte runes, some whose code point
			// ends in the byte of a quote, a blank or '!'), with a semicolon, with blanks at both ends
			"'h\u00e9llo'", "\"\u65e5\u672c\"", "`\u00f1ame`", "'\u0127'", "'\u0120x'", "'\u0121='", "'a;b'", "`k;1`", "' x '", "'50%'", "'\xff\xfe'", "'a`b'", "\"x`y`z\"", "`q'r`", "'`'"}
		for i := 0; i < c.n; i++ {
			r := caseRand(c.shard, i)
			n := 1 + r.Intn(14)
			text := ""
			for j := 0; j < n; j++ {
				text += pool[r.Intn(len(pool))]
				switch r.Intn(4) {
				case 0:
				case 1:
					text += " "
				case 2:
					text += "  "
				default:
					if r.Intn(3) == 0 {
						text += " "
					}
				}
			}
			if r.Intn(10) == 0 { // a few raw byte strings
				b := make([]byte, 7+r.Intn(40))
				for k := range b {
					const rawAlpha = " aZ09'\"`=!<>^~+-*/&|()[],;._xe"
					b[k] = rawAlpha[r.Intn(len(rawAlpha))]
				}
				text = string(b)
			}
			id := fmt.Sprintf("r%d.%d", c.shard, i)
			if c.only != "" && c.only != id {
				continue
			}
			out.Stats.Cases++
			out.Stats.Evaluations++
			got, p := engineTokens(text)
			out.Stats.distinct(text, len(got) > 1)
			if i%1000 == 0 {
				out.Stats.sample(map[string]any{"text": text, "engine_tokens": showToks(got)})
			}
			out.Trace("lexer", lexTrace{ID: id, Q: text, Text: bi([]byte(text)), Toks: got, Panic: p})
		}
	}
}
