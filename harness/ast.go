package main

// AST shared with the TLA+ specification: uniform nodes [k, op, s, n, d, a].

import (
	"fmt"
	"strconv"
	"strings"
)

type Node struct {
	K  string  `json:"k"`
	Op string  `json:"op"`
	S  []int   `json:"s"`
	N  int     `json:"n"`
	D  int     `json:"d"`
	A  []*Node `json:"a"`
}

func nd(k, op string, s []int, n, d int, a ...*Node) *Node {
	if s == nil {
		s = []int{}
	}
	if a == nil {
		a = []*Node{}
	}
	return &Node{K: k, Op: op, S: s, N: n, D: d, A: a}
}

func AKey() *Node             { return nd("key", "", nil, 0, 0) }
func AVal() *Node             { return nd("val", "", nil, 0, 0) }
func AStr(s string) *Node     { return nd("str", "", bi([]byte(s)), 0, 0) }
func AInt(n int) *Node        { return nd("int", "", nil, n, 0) }
func AFlt(n, d int) *Node     { return nd("flt", "", nil, n, d) }
func ABool(b bool) *Node {
	if b {
		return nd("bool", "", nil, 1, 0)
	}
	return nd("bool", "", nil, 0, 0)
}
func ABin(op string, l, r *Node) *Node   { return nd("bin", op, nil, 0, 0, l, r) }
func ANot(x *Node) *Node                 { return nd("not", "", nil, 0, 0, x) }
func ACall(f string, args ...*Node) *Node { return nd("call", f, nil, 0, 0, args...) }
func AList(items ...*Node) *Node         { return nd("list", "", nil, 0, 0, items...) }
func AIdx(x, i *Node) *Node              { return nd("idx", "", nil, 0, 0, x, i) }
func AName(nm string) *Node              { return nd("name", nm, nil, 0, 0) }
func AIn(l *Node, items ...*Node) *Node  { return ABin("in", l, AList(items...)) }
func ABetween(x, lo, hi *Node) *Node     { return ABin("between", x, AList(lo, hi)) }

func (n *Node) fix() {
	if n.S == nil {
		n.S = []int{}
	}
	if n.A == nil {
		n.A = []*Node{}
	}
	for _, c := range n.A {
		c.fix()
	}
}

// dyadic n / 2^d rendered as a decimal literal that always contains a '.'
func dyText(n, d int) string {
	neg := n < 0
	if neg {
		n = -n
	}
	ip := n >> uint(d)
	fr := n - ip<<uint(d)
	s := strconv.Itoa(ip) + "."
	if fr == 0 {
		s += "0"
	} else {
		// fr / 2^d in decimal, exactly
		for fr != 0 {
			fr *= 10
			s += strconv.Itoa(fr >> uint(d))
			fr &= (1 << uint(d)) - 1
		}
	}
	if neg {
		return "-" + s
	}
	return s
}

func quoteStr(b []byte) string {
	// choose a quote character that does not occur in the literal
	q := byte('\'')
	if strings.IndexByte(string(b), '\'') >= 0 {
		q = '"'
	}
	return string(q) + string(b) + string(q)
}

// Text renders the node as fully parenthesised query text.
func (n *Node) Text() string {
	switch n.K {
	case "key":
		return "key"
	case "val":
		return "value"
	case "str":
		return quoteStr(ib(n.S))
	case "int":
		return strconv.Itoa(n.N)
	case "flt":
		return dyText(n.N, n.D)
	case "bool":
		if n.N == 1 {
			return "true"
		}
		return "false"
	case "name":
		return quoteName(n.Op)
	case "not":
		if renderMinParens && n.A[0].K != "bin" {
			return "!" + n.A[0].Text()
		}
		return "!(" + n.A[0].Text() + ")"
	case "call":
		args := make([]string, len(n.A))
		for i, a := range n.A {
			args[i] = a.Text()
		}
		return n.Op + "(" + strings.Join(args, ", ") + ")"
	case "list":
		args := make([]string, len(n.A))
		for i, a := range n.A {
			args[i] = a.Text()
		}
		return "(" + strings.Join(args, ", ") + ")"
	case "idx":
		return n.A[0].Text() + "[" + n.A[1].Text() + "]"
	case "bin":
		if renderMinParens {
			return n.textMin()
		}
		switch n.Op {
		case "between":
			return "(" + n.A[0].Text() + " between " + n.A[1].A[0].Text() + " and " + n.A[1].A[1].Text() + ")"
		case "in":
			return "(" + n.A[0].Text() + " in " + n.A[1].Text() + ")"
		}
		return "(" + n.A[0].Text() + " " + n.Op + " " + n.A[1].Text() + ")"
	}
	panic("bad node kind " + n.K)
}

// renderMinParens switches Text() to the minimal parenthesisation the documented binding strengths allow
// (OR/| < AND/& < comparisons, IN, BETWEEN < + - < * /, left-associative): the parser has to rebuild the tree itself.
var renderMinParens bool

var astPrec = map[string]int{"|": 1, "or": 1, "&": 2, "and": 2, "=": 3, "!=": 3, "^=": 3, "~=": 3, ">": 3, ">=": 3, "<": 3, "<=": 3, "in": 3, "between": 3, "+": 4, "-": 4, "*": 5, "/": 5}

func (n *Node) textMin() string {
	p := astPrec[n.Op]
	side := func(c *Node, right bool) string {
		t := c.Text()
		if c.K == "bin" {
			cp := astPrec[c.Op]
			if (right && cp <= p) || (!right && cp < p) {
				return "(" + t + ")"
			}
		}
		return t
	}
	switch n.Op {
	case "between":
		return side(n.A[0], false) + " between " + side(n.A[1].A[0], true) + " and " + side(n.A[1].A[1], true)
	case "in":
		if n.A[1].K == "list" {
			return side(n.A[0], false) + " in " + n.A[1].Text()
		}
		r := n.A[1].Text()
		if n.A[1].K == "bin" {
			return "(" + n.A[0].Text() + " in " + r + ")" // (x in <binary>) has no unambiguous minimal form: keep it as written
		}
		return side(n.A[0], false) + " in " + r
	}
	return side(n.A[0], false) + " " + n.Op + " " + side(n.A[1], true)
}

// Canon is the engine's canonical rendering (Expression.String()) of the
// tree, as documented by the property C15: fully parenthesised, words lower
// case, KEY/VALUE upper case, strings in single quotes.
func (n *Node) Canon() string {
	switch n.K {
	case "key":
		return "KEY"
	case "val":
		return "VALUE"
	case "str":
		return "'" + string(ib(n.S)) + "'"
	case "int":
		return strconv.Itoa(n.N)
	case "flt":
		return dyText(n.N, n.D)
	case "bool":
		if n.N == 1 {
			return "true"
		}
		return "false"
	case "name":
		return n.Op
	case "not":
		return "!(" + n.A[0].Canon() + ")"
	case "call":
		args := make([]string, len(n.A))
		for i, a := range n.A {
			args[i] = a.Canon()
		}
		return n.Op + "(" + strings.Join(args, ", ") + ")"
	case "list":
		args := make([]string, len(n.A))
		for i, a := range n.A {
			args[i] = a.Canon()
		}
		return "(" + strings.Join(args, ", ") + ")"
	case "idx":
		return n.A[0].Canon() + "[" + n.A[1].Canon() + "]"
	case "bin":
		if n.Op == "between" {
			return "(" + n.A[0].Canon() + " BETWEEN " + n.A[1].A[0].Canon() + " AND " + n.A[1].A[1].Canon() + ")"
		}
		return "(" + n.A[0].Canon() + " " + n.Op + " " + n.A[1].Canon() + ")"
	}
	panic("bad node kind " + n.K)
}

func (n *Node) String() string { return fmt.Sprintf("%s", n.Text()) }

// Walk visits every node.
func (n *Node) Walk(f func(*Node)) {
	f(n)
	for _, c := range n.A {
		c.Walk(f)
	}
}

func (n *Node) Size() int {
	s := 0
	n.Walk(func(*Node) { s++ })
	return s
}
