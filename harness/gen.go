package main

// Seeded random statements from the typed grammar of the documented core
// language (the Go twin of the grammar KvTyping describes).  Used by the
// `record rows` stages: the statements are too many and too irregular to
// enumerate; TraceStmt.tla judges each recorded execution with the contract.

import (
	"fmt"
	"math/rand"
)

type genCtx struct {
	r       *rand.Rand
	numeric bool     // store values are integers (int(value) is modelled)
	floats  bool     // store values are dyadic decimals
	aliases []string // names usable as operands: "n:N" "u:S"
}

func (g *genCtx) pick(xs ...string) string { return xs[g.r.Intn(len(xs))] }

func (g *genCtx) pick2(xs ...*Node) *Node { return xs[g.r.Intn(len(xs))] }

func (g *genCtx) strLit() *Node {
	return AStr(g.pick("", "a", "ab", "abc", "b", "B", "k1", "k12", "x", "1", "2", "10", "a,b", "zz"))
}

func (g *genCtx) genS(d int) *Node {
	if d <= 0 || g.r.Intn(3) == 0 {
		switch g.r.Intn(5) {
		case 0, 1:
			return AKey()
		case 2, 3:
			return AVal()
		default:
			return g.strLit()
		}
	}
	switch g.r.Intn(8) {
	case 0:
		return ACall("upper", g.genS(d-1))
	case 1:
		return ACall("lower", g.genS(d-1))
	case 2:
		return ABin("+", g.genS(d-1), g.genS(d-1))
	case 3:
		return ACall("str", g.genN(d-1))
	case 4:
		n := g.r.Intn(4)
		st := []int{0, 0, 1, 2}[g.r.Intn(4)]
		return ACall("substr", g.genS(d-1), AInt(st), AInt(st+n))
	case 5:
		return ACall("join", AStr(g.pick(",", "-", "")), g.genS(d-1), g.genN(d-1))
	case 6:
		return AIdx(ACall("split", g.genS(d-1), AStr(g.pick(",", "b"))), AInt(0))
	default:
		return g.strLit()
	}
}

func (g *genCtx) numLit() *Node {
	if g.r.Intn(3) == 0 {
		return []*Node{AFlt(1, 1), AFlt(3, 1), AFlt(2, 0), AFlt(1, 2)}[g.r.Intn(4)]
	}
	return AInt([]int{0, 1, 2, 3, 5, 10}[g.r.Intn(6)])
}

func (g *genCtx) genN(d int) *Node {
	if d <= 0 || g.r.Intn(3) == 0 {
		switch g.r.Intn(4) {
		case 0:
			return ACall("strlen", AKey())
		case 1:
			if g.numeric {
				return ACall("int", AVal())
			}
			if g.floats {
				return ACall("float", AVal())
			}
			return ACall("strlen", AVal())
		default:
			return g.numLit()
		}
	}
	switch g.r.Intn(6) {
	case 0, 1:
		return ABin(g.pick("+", "-", "*"), g.genN(d-1), g.genN(d-1))
	case 2:
		return ABin("/", g.genN(d-1), []*Node{AInt(1), AInt(2), AFlt(1, 1), AFlt(2, 0)}[g.r.Intn(4)])
	case 3:
		return ACall("strlen", g.genS(d-1))
	case 4:
		return ACall("len", ACall("split", g.genS(d-1), AStr(",")))
	default:
		return g.numLit()
	}
}

func (g *genCtx) genB(d int) *Node {
	if d <= 0 || g.r.Intn(4) == 0 {
		switch g.r.Intn(7) {
		case 0:
			return ABin(g.pick("=", "!=", "^=", ">", ">=", "<", "<="), g.genS(0), g.strLit())
		case 1:
			return ABin(g.pick("=", "!=", ">", ">=", "<", "<="), g.strLit(), AKey())
		case 2:
			return ABin(g.pick("=", "!=", ">", ">=", "<", "<="), g.genN(1), g.numLit())
		case 3:
			return AIn(AKey(), g.strLit(), g.strLit(), AStr(fmt.Sprintf("k%02d", g.r.Intn(30))))
		case 4:
			if g.r.Intn(3) == 0 {
				// the pattern comes from the pair itself: every row of a chunk has its own
				return ABin("~=", AKey(), g.pick2(AVal(), ABin("+", AStr("^"), AVal()), ACall("lower", AVal())))
			}
			return ABin("~=", g.genS(0), AStr(g.pick("^a", "b$", "^k.*1$", "1", "^ab$")))
		case 5:
			return ACall("is_int", g.genS(1))
		default:
			a, b := g.r.Intn(5), 5+g.r.Intn(5)
			return ABetween(g.genN(1), AInt(a), AInt(b))
		}
	}
	switch g.r.Intn(5) {
	case 0:
		return ANot(g.genB(d - 1))
	default:
		l, r := g.genB(d-1), g.genB(d-1)
		// the checker refuses a bare Boolean function call / literal only when it is a literal: calls are fine
		return ABin(g.pick("&", "|", "and", "or"), l, r)
	}
}

func randStore(r *rand.Rand, kind int) ([]SPair, bool, bool) {
	n := []int{0, 1, 5, 12, 33, 40, 70}[r.Intn(7)]
	pairs := []KV{}
	for i := 0; i < n; i++ {
		var k string
		switch r.Intn(4) {
		case 0:
			k = fmt.Sprintf("k%02d", r.Intn(60))
		case 1:
			k = []string{"a", "ab", "abc", "b", "ba", "", "B", "zz", "k1", "k12"}[r.Intn(10)]
		default:
			k = fmt.Sprintf("k%02d", i)
		}
		var v string
		switch kind {
		case 0:
			v = fmt.Sprint(r.Intn(12))
		case 1:
			v = []string{"1.5", "0.25", "3", "2.0", "10", "7.5"}[r.Intn(6)]
		default:
			v = []string{"", "a", "ab", "AB", "a,b,c", "1", "x y", "b", "k1", "k", "k0", "^k1"}[r.Intn(12)]
		}
		pairs = append(pairs, KV{[]byte(k), []byte(v)})
	}
	return plainPairs(NewRefStore(pairs).Snapshot()), kind == 0, kind == 1
}

// randStatement builds a statement in the flavour a property needs.
func randStatement(r *rand.Rand, prop string) (*Stmt, []SPair) {
	kind := r.Intn(3)
	store, numeric, floats := randStore(r, kind)
	g := &genCtx{r: r, numeric: numeric, floats: floats}
	st := &Stmt{Kind: "select", Where: g.genB(1 + r.Intn(3))}
	wantFields := prop != "C01"
	if wantFields && r.Intn(4) != 0 {
		nf := 1 + r.Intn(3)
		for i := 0; i < nf; i++ {
			var e *Node
			switch r.Intn(3) {
			case 0:
				e = g.genN(1 + r.Intn(2))
			case 1:
				e = g.genS(1 + r.Intn(2))
			default:
				if r.Intn(2) == 0 {
					e = AKey()
				} else {
					e = AVal()
				}
			}
			nm := ""
			if r.Intn(2) == 0 {
				nm = fmt.Sprintf("f%d", i)
			}
			st.Fields = append(st.Fields, Field{E: e, Nm: nm})
		}
	}
	nfields := len(st.Fields)
	if nfields == 0 {
		nfields = 2
	}
	switch prop {
	case "C07":
		no := 1 + r.Intn(2)
		for i := 0; i < no; i++ {
			st.Order = append(st.Order, Ord{F: 1 + r.Intn(nfields), Desc: r.Intn(2) == 0})
		}
	case "C08", "C03":
		if r.Intn(2) == 0 {
			st.Order = append(st.Order, Ord{F: 1 + r.Intn(nfields), Desc: r.Intn(2) == 0})
		}
		if prop == "C08" || r.Intn(2) == 0 {
			st.Lim = Lim{Has: true, S: []int{0, 1, 2, 3, 31, 32, 33}[r.Intn(7)], N: []int{0, 1, 2, 5, 32, 33, 100}[r.Intn(7)]}
		}
	case "C09":
		// group by one or two text fields, aggregate a numeric one
		gf := []Field{{E: ACall("substr", AKey(), AInt(0), AInt(1+r.Intn(2))), Nm: "p"}}
		if r.Intn(2) == 0 {
			gf = append(gf, Field{E: AVal(), Nm: "v"})
		}
		arg := ACall("strlen", AKey())
		if numeric {
			arg = ACall("int", AVal())
		}
		agg := []*Node{ACall("count", AInt(1)), ACall("sum", arg), ACall("min", arg), ACall("max", arg), ACall("avg", arg),
			ACall("group_concat", AKey(), AStr(",")), ACall("json_arrayagg", AKey()), ABin("+", ACall("sum", arg), ACall("count", AInt(1)))}[r.Intn(8)]
		st.Fields = append(gf, Field{E: agg, Nm: "agg"})
		st.Group = []int{}
		for i := range gf {
			st.Group = append(st.Group, i+1)
		}
		if r.Intn(3) == 0 {
			st.Lim = Lim{Has: true, S: r.Intn(3), N: 1 + r.Intn(4)}
		}
	}
	st.fix()
	return st, store
}
