package main

// Statements in the shape the specification uses (KvExec.tla):
// [kind, fields, where, order, group, lim, pairs, keys].

import (
	"fmt"
	"strings"
)

type Field struct {
	E  *Node  `json:"e"`
	Nm string `json:"nm"`
}

type Ord struct {
	F    int  `json:"f"` // 1-based index of the select field (0 with star: see Name)
	Desc bool `json:"desc"`
}

type Lim struct {
	Has bool `json:"has"`
	S   int  `json:"s"`
	N   int  `json:"n"`
}

type PutPair struct {
	K *Node `json:"k"`
	V *Node `json:"v"`
}

type Stmt struct {
	Kind   string    `json:"kind"` // select | delete | put | remove
	Fields []Field   `json:"fields"`
	Where  *Node     `json:"where"`
	Order  []Ord     `json:"order"`
	Group  []int     `json:"group"`
	Lim    Lim       `json:"lim"`
	Pairs  []PutPair `json:"pairs"`
	Keys   []*Node   `json:"keys"`
}

func (s *Stmt) fix() {
	if s.Fields == nil {
		s.Fields = []Field{}
	}
	if s.Order == nil {
		s.Order = []Ord{}
	}
	if s.Group == nil {
		s.Group = []int{}
	}
	if s.Pairs == nil {
		s.Pairs = []PutPair{}
	}
	if s.Keys == nil {
		s.Keys = []*Node{}
	}
	if s.Where == nil {
		s.Where = ABool(true)
	}
	s.Where.fix()
	for i := range s.Fields {
		s.Fields[i].E.fix()
	}
	for i := range s.Pairs {
		s.Pairs[i].K.fix()
		s.Pairs[i].V.fix()
	}
	for _, k := range s.Keys {
		k.fix()
	}
}

// fieldName: how ORDER BY / GROUP BY refer to select field i (1-based).
// With `select *` fields 1 and 2 are key and value.
func (s *Stmt) fieldName(i int) string {
	if len(s.Fields) == 0 {
		if i == 1 {
			return "key"
		}
		return "value"
	}
	f := s.Fields[i-1]
	if f.Nm != "" {
		return quoteName(f.Nm)
	}
	return f.E.Text()
}

// quoteName: a field name that is not a plain lower-case word is written between backquotes.
func quoteName(nm string) string {
	for i := 0; i < len(nm); i++ {
		c := nm[i]
		if !(c >= 'a' && c <= 'z' || c == '_' || (i > 0 && c >= '0' && c <= '9')) {
			return "`" + nm + "`"
		}
	}
	return nm
}

func (s *Stmt) Text() string {
	switch s.Kind {
	case "put":
		ps := make([]string, len(s.Pairs))
		for i, p := range s.Pairs {
			ps[i] = "(" + p.K.Text() + ", " + p.V.Text() + ")"
		}
		return "put " + strings.Join(ps, ", ")
	case "remove":
		ks := make([]string, len(s.Keys))
		for i, k := range s.Keys {
			ks[i] = k.Text()
		}
		return "remove " + strings.Join(ks, ", ")
	case "delete":
		q := "delete where " + s.Where.Text()
		if s.Lim.Has {
			q += s.limText()
		}
		return q
	}
	q := "select "
	if len(s.Fields) == 0 {
		q += "*"
	} else {
		fs := make([]string, len(s.Fields))
		for i, f := range s.Fields {
			fs[i] = f.E.Text()
			if f.Nm != "" {
				fs[i] += " as " + quoteName(f.Nm)
			}
		}
		q += strings.Join(fs, ", ")
	}
	q += " where " + s.Where.Text()
	if len(s.Group) > 0 {
		gs := make([]string, len(s.Group))
		for i, g := range s.Group {
			gs[i] = s.fieldName(g)
		}
		q += " group by " + strings.Join(gs, ", ")
	}
	if len(s.Order) > 0 {
		os := make([]string, len(s.Order))
		for i, o := range s.Order {
			os[i] = s.fieldName(o.F)
			if o.Desc {
				os[i] += " desc"
			} else if i%2 == 1 {
				os[i] += " asc"
			}
		}
		q += " order by " + strings.Join(os, ", ")
	}
	if s.Lim.Has {
		q += s.limText()
	}
	return q
}

func (s *Stmt) limText() string {
	n := fmt.Sprint(s.Lim.N)
	if s.Lim.N >= 2000000000 {
		n = "9223372036854775807" // "a count beyond any result": the largest the language can express
	}
	if s.Lim.S == 0 && s.Lim.N%2 == 0 {
		return " limit " + n
	}
	return fmt.Sprintf(" limit %d, %s", s.Lim.S, n)
}

// Stored pair with the JSON document its value renders (or unspec).
type SPair struct {
	K   []int `json:"k"`
	V   []int `json:"v"`
	Doc Val   `json:"doc"`
}

func plainPairs(p []KV) []SPair {
	r := make([]SPair, len(p))
	for i, x := range p {
		r[i] = SPair{bi(x.K), bi(x.V), mkVal("unspec")}
	}
	return r
}

func kvOf(p []SPair) []KV {
	r := make([]KV, len(p))
	for i, x := range p {
		r[i] = KV{ib(x.K), ib(x.V)}
	}
	return r
}

func fixSPairs(p []SPair) []SPair {
	for i := range p {
		if p[i].K == nil {
			p[i].K = []int{}
		}
		if p[i].V == nil {
			p[i].V = []int{}
		}
		fixVal(&p[i].Doc)
	}
	if p == nil {
		return []SPair{}
	}
	return p
}

func fixVal(v *Val) {
	if v.T == "" {
		v.T = "unspec"
	}
	if v.S == nil {
		v.S = []int{}
	}
	if v.L == nil {
		v.L = []Val{}
	}
	for i := range v.L {
		fixVal(&v.L[i])
	}
}

// Surface renders the same statement text in another documented spelling: keywords in upper case (bit 0), string literals
// in double quotes (bit 1), wider spacing (bit 2), a trailing semicolon (bit 3), `select *` left out (bit 4: the bare
// `where ...` form).  Quoted segments are left alone.  The meaning is unchanged, so are the results.
var surfaceKeywords = map[string]bool{"select": true, "where": true, "and": true, "or": true, "in": true, "between": true, "order": true, "by": true,
	"group": true, "limit": true, "as": true, "asc": true, "desc": true, "key": true, "value": true, "delete": true, "put": true, "remove": true, "true": true, "false": true}

func Surface(q string, v int) string {
	if v&16 != 0 && strings.HasPrefix(q, "select * where ") {
		q = q[len("select * "):]
	}
	var sb strings.Builder
	i := 0
	for i < len(q) {
		c := q[i]
		switch {
		case c == '\'' || c == '"' || c == '`':
			j := i + 1
			for j < len(q) && q[j] != c {
				j++
			}
			seg := q[i:min(j+1, len(q))]
			if v&2 != 0 && c == '\'' && !strings.Contains(seg, "\"") && j < len(q) {
				seg = "\"" + seg[1:len(seg)-1] + "\""
			}
			sb.WriteString(seg)
			i = j + 1
		case c >= 'a' && c <= 'z' || c == '_':
			j := i
			for j < len(q) && (q[j] >= 'a' && q[j] <= 'z' || q[j] == '_' || q[j] >= '0' && q[j] <= '9') {
				j++
			}
			w := q[i:j]
			if v&1 != 0 && surfaceKeywords[w] {
				if v&64 != 0 {
					// letter by letter: which ones are capitals depends on the position in the text (last letter only,
					// only the a's, alternating ... all occur)
					b := []byte(w)
					for k := range b {
						if (i+k*7+v)%3 == 0 || (k == len(b)-1 && (i+v)%2 == 0) || (b[k] == 'a' && (i+v)%5 < 2) {
							b[k] -= 'a' - 'A'
						}
					}
					w = string(b)
				} else {
					w = strings.ToUpper(w)
				}
			}
			sb.WriteString(w)
			i = j
		case c == ' ':
			sb.WriteByte(' ')
			if v&4 != 0 {
				sb.WriteString(" \t"[0:1+i%2])
			}
			i++
		default:
			sb.WriteByte(c)
			i++
		}
	}
	out := sb.String()
	if v&8 != 0 {
		out += " ;"
	}
	return out
}
