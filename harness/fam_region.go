package main

// Family "region": predicate trees over key-constraining and opaque atoms,
// enumerated by TLC (MCRegion.tla) together with the contract's satisfying
// key sets and the C18 envelopes.  Serves C02, C18 and (as SELECT / DELETE
// cases) C01 and C11.

import (
	"encoding/json"
	"flag"
	"fmt"
	"math/rand"
	"os"

	"github.com/c4pt0r/kvql"
)

type regionCase struct {
	Kind string `json:"kind"`
	// store line
	Keys [][]int `json:"keys"`
	V1   []int   `json:"v1"`
	V0   []int   `json:"v0"`
	// case line
	E      *Node  `json:"e"`
	S1     []int  `json:"s1"`
	S0     []int  `json:"s0"`
	Region any    `json:"region"`
	Pins   []pinJ `json:"pins"`
	Unsat  bool   `json:"unsat"`
}

type pinJ struct {
	Tp    string  `json:"tp"`
	Ks    [][]int `json:"ks"`
	Lo    []int   `json:"lo"`
	HasLo bool    `json:"haslo"`
	Hi    []int   `json:"hi"`
	HasHi bool    `json:"hashi"`
}

type regionTrace struct {
	ID     string   `json:"id"`
	Q      string   `json:"q"`
	Plan   PlanInfo `json:"plan"`
	Acc    [][]int  `json:"acc"`    // keys the engine's own filter accepts
	Rows   [][]int  `json:"rows"`   // keys returned row-at-a-time
	RowsB  [][]int  `json:"rowsb"`  // keys returned in batches
	Before [][]int  `json:"before"` // store keys before DELETE
	After  [][]int  `json:"after"`  // store keys after DELETE
	HasDel bool     `json:"hasdel"`
}

type accEvent struct {
	Op string `json:"op"`
	K  []int  `json:"k"`
	Ok bool   `json:"ok"`
}

type accessTrace struct {
	ID     string     `json:"id"`
	Q      string     `json:"q"`
	Pins   []pinJ     `json:"pins"`
	Unsat  bool       `json:"unsat"`
	Events []accEvent `json:"events"`
	Slack  int        `json:"slack"` // extra end-detecting reads per poll (a poll that drives the scan several times)
	Total  int        `json:"total"` // > 0: the statement drains its scan once: at most this many reads past the end altogether
}

func compactEvents(log []Event) []accEvent {
	out := make([]accEvent, 0, len(log))
	for _, e := range log {
		if e.Err == "fault" {
			continue // the injected failure itself read nothing
		}
		switch e.Op {
		case "Get", "Next", "Poll", "PollEnd", "BatchDelete", "Delete", "Put", "BatchPut":
			k := e.K
			if k == nil {
				k = []int{}
			}
			out = append(out, accEvent{Op: e.Op, K: k, Ok: e.Ok})
		}
	}
	return out
}

func keysOfRows(rows [][]Val) [][]int {
	out := make([][]int, len(rows))
	for i, r := range rows {
		if len(r) > 0 {
			out[i] = r[0].S
		} else {
			out[i] = []int{}
		}
	}
	return out
}

func sameKeySeq(a, b [][]int) bool {
	if len(a) != len(b) {
		return false
	}
	for i := range a {
		if string(ib(a[i])) != string(ib(b[i])) {
			return false
		}
	}
	return true
}

func keyStrs(a [][]int) []string {
	r := make([]string, len(a))
	for i, k := range a {
		r[i] = string(ib(k))
	}
	return r
}

// rowsMatchPairs: rows are exactly the given pairs (key and stored value), in order.
func rowsMatchPairs(rows [][]Val, pairs []KV) bool {
	if len(rows) != len(pairs) {
		return false
	}
	for i, r := range rows {
		if len(r) != 2 || r[0].T != "s" || r[1].T != "s" {
			return false
		}
		if string(ib(r[0].S)) != string(pairs[i].K) || string(ib(r[1].S)) != string(pairs[i].V) {
			return false
		}
	}
	return true
}

func engineFilterAccepts(q string, pairs []KV) (acc []KV, err error, panicked string) {
	defer func() {
		if r := recover(); r != nil {
			panicked = fmt.Sprint(r)
		}
	}()
	filterHadError = false
	_, fe, err := kvql.BuildExecutor(q)
	if err != nil {
		return nil, err, ""
	}
	ctx := kvql.NewExecuteCtx()
	for _, p := range pairs {
		ctx.Clear()
		ok, err := fe.Filter(kvql.NewKVP(p.K, p.V), ctx)
		if err != nil {
			// the clause is not evaluable on this pair (e.g. a reversed BETWEEN): pairs the filter accepts
			// without evaluating that part must still be covered by the region
			filterHadError = true
			continue
		}
		if ok {
			acc = append(acc, p)
		}
	}
	return acc, nil, ""
}

var filterHadError bool

func kvKeys(p []KV) [][]int {
	r := make([][]int, len(p))
	for i, x := range p {
		r[i] = bi(x.K)
	}
	return r
}

func init() {
	replayFamilies["region"] = replayRegion
}

func replayRegion(args []string) {
	var patterns int
	c := parseCommon("region", args, func(fs *flag.FlagSet) {
		fs.IntVar(&patterns, "patterns", 2, "number of opaque-value patterns per case")
	})
	out := NewOut(c.out, c.prop)
	defer out.Close()
	var keys [][]byte
	var v1, v0 []byte
	rng := rand.New(rand.NewSource(envSeed()))
	_ = rng
	idx := 0
	bsizes := []int{2, 32}
	if c.tier == "thorough" {
		bsizes = []int{1, 2, 3, 32}
	}
	err := readTLCLines(c.in, func(raw []byte) {
		var rc regionCase
		if err := json.Unmarshal(raw, &rc); err != nil {
			out.Infra = append(out.Infra, "bad line: "+err.Error())
			return
		}
		if rc.Kind == "store" {
			for _, k := range rc.Keys {
				keys = append(keys, ib(k))
			}
			v1, v0 = ib(rc.V1), ib(rc.V0)
			return
		}
		if rc.Kind != "case" {
			return
		}
		idx++
		if (idx-1)%c.shards != c.shard {
			return
		}
		rc.E.fix()
		text := rc.E.Text()
		id := text
		if c.only != "" && c.only != id {
			return
		}
		out.Stats.Cases++
		in1 := map[int]bool{}
		in0 := map[int]bool{}
		for _, i := range rc.S1 {
			in1[i] = true
		}
		for _, i := range rc.S0 {
			in0[i] = true
		}
		nontrivial := len(rc.S1) > 0 || len(rc.S0) > 0
		out.Stats.distinct(id, nontrivial)
		if out.Stats.Cases%2000 == 1 {
			out.Stats.sample(map[string]any{"query": "select * where " + text, "sat_if_opaque_true": len(rc.S1), "sat_if_opaque_false": len(rc.S0), "unsat_on_face": rc.Unsat, "pins": len(rc.Pins)})
		}
		selQ := "select * where " + text
		delQ := "delete where " + text

		// parse-back guard: the engine must have parsed the tree the case means
		if stmt, _, err := kvql.BuildExecutor(selQ); err == nil {
			if got := stmt.Where.Expr.String(); got != rc.E.Canon() {
				out.Infra = append(out.Infra, fmt.Sprintf("parse-back mismatch: %q parsed as %q, meant %q", selQ, got, rc.E.Canon()))
				return
			}
		}

		for pat := 0; pat < patterns; pat++ {
			// the store: every universe key; opaque atom true on alternating keys
			pairs := make([]KV, len(keys))
			var exp []KV
			for i, k := range keys {
				opq := (i%2 == 0) == (pat == 0)
				if pat == 2 {
					opq = true
				}
				v := v0
				if opq {
					v = v1
				} else if i%3 == pat {
					v = []byte{} // an empty (stored, non-nil) value fails the opaque test just like v0
				}
				pairs[i] = KV{k, v}
				if (opq && in1[i+1]) || (!opq && in0[i+1]) {
					exp = append(exp, pairs[i])
				}
			}
			pid := fmt.Sprintf("%s#p%d", id, pat)
			selQ, delQ := selQ, delQ
			if pat == 1 {
				// the second pattern writes the connectives as words: `and` / `or` are the same operators as & / |
				kw := keywordForm(rc.E).Text()
				selQ, delQ = "select * where "+kw, "delete where "+kw
			}

			switch c.prop {
			case "C02", "C01":
				acc, ferr, fpanic := engineFilterAccepts(selQ, pairs)
				if ferr != nil || fpanic != "" {
					out.Finding(Finding{Prop: c.prop, Kind: "filter-error", CaseID: id, Query: selQ, Detail: fmt.Sprint(ferr, fpanic)})
					continue
				}
				tr := regionTrace{ID: pid, Q: selQ, Acc: kvKeys(acc), Before: [][]int{}, After: [][]int{}}
				for _, bs := range bsizes {
					for _, mode := range []string{"row", "batch"} {
						if mode == "row" && bs != bsizes[0] {
							continue
						}
						o, _ := RunOn(selQ, pairs, RunOpts{Mode: mode, BSize: bs, Cache: true, NoLog: true})
						out.Stats.Evaluations++
						if o.Phase != "done" {
							out.Finding(Finding{Prop: c.prop, Kind: "select-" + o.Phase, CaseID: id, Query: selQ,
								Detail: fmt.Sprintf("mode=%s bsize=%d err=%s", mode, bs, o.ErrMsg)})
							continue
						}
						tr.Plan = o.Plan
						if mode == "row" {
							tr.Rows = keysOfRows(o.Rows)
						} else if bs == bsizes[len(bsizes)-1] {
							tr.RowsB = keysOfRows(o.Rows)
						}
						ref := acc
						what := "the engine's own pair-by-pair filter"
						if c.prop == "C01" {
							ref = exp
							what = "the contract"
						}
						if !rowsMatchPairs(o.Rows, ref) {
							out.Finding(Finding{Prop: c.prop, Kind: "rows-differ", CaseID: id, Query: selQ,
								Detail: fmt.Sprintf("mode=%s bsize=%d pattern=%d scan=%s rows=%q expected(%s)=%q", mode, bs, pat, o.Plan.Scan, keyStrs(keysOfRows(o.Rows)), what, keyStrs(kvKeys(ref)))})
						}
						if c.prop == "C01" {
							// identical on repetition
							o2, _ := RunOn(selQ, pairs, RunOpts{Mode: mode, BSize: bs, Cache: true, NoLog: true})
							out.Stats.Evaluations++
							if !RowsEqual(o.Rows, o2.Rows) {
								out.Finding(Finding{Prop: c.prop, Kind: "not-repeatable", CaseID: id, Query: selQ, Detail: fmt.Sprintf("mode=%s bsize=%d", mode, bs)})
							}
						}
					}
				}
				if c.prop == "C01" && !sameKeySeq(kvKeys(acc), kvKeys(exp)) {
					out.Finding(Finding{Prop: c.prop, Kind: "filter-differs-from-contract", CaseID: id, Query: selQ,
						Detail: fmt.Sprintf("pattern=%d engine filter=%q contract=%q", pat, keyStrs(kvKeys(acc)), keyStrs(kvKeys(exp)))})
				}
				if c.prop == "C02" {
					// the same clause as DELETE: exactly the accepted pairs disappear
					o, sh := RunOn(delQ, pairs, RunOpts{Mode: "batch", BSize: bsizes[0], Cache: true, NoLog: true})
					out.Stats.Evaluations++
					if o.Phase != "done" {
						out.Finding(Finding{Prop: c.prop, Kind: "delete-" + o.Phase, CaseID: id, Query: delQ, Detail: o.ErrMsg})
					} else {
						tr.HasDel = true
						tr.Before = kvKeys(pairs)
						tr.After = kvKeys(sh.St.Snapshot())
					}
					if tr.Rows == nil {
						tr.Rows = [][]int{}
					}
					if tr.RowsB == nil {
						tr.RowsB = [][]int{}
					}
					out.Trace("region", tr)
				}
			case "C11":
				if c.tier != "thorough" && idx%4 != int(envSeed()%4) {
					break // quick: a rotating quarter of the trees (C02 runs all of them as DELETE too)
				}
				for bi2, bs := range bsizes {
					for mi, mode := range []string{"row", "batch"} {
						if c.tier != "thorough" && (bi2 != idx%len(bsizes) || mi != (idx/2)%2) {
							continue // quick: one (mode, batch size) per case, rotating
						}
						if c.tier == "thorough" && bi2 != (idx+mi+pat)%len(bsizes) {
							continue // thorough: every tree, both modes, a rotating batch size per (mode, pattern)
						}
						o, sh := RunOn(delQ, pairs, RunOpts{Mode: mode, BSize: bs, Cache: true})
						out.Stats.Evaluations++
						if o.Phase != "done" {
							out.Finding(Finding{Prop: c.prop, Kind: "delete-" + o.Phase, CaseID: id, Query: delQ, Detail: o.ErrMsg})
							continue
						}
						dst := &Stmt{Kind: "delete", Where: rc.E}
						dst.fix()
						out.Trace("store", storeTrace{ID: fmt.Sprintf("%s#%s%d", pid, mode, bs), Q: delQ, Kind: "delete", Stmt: dst, HasStmt: true,
							Before: plainPairs(pairs), Events: storeEvents(sh.Log), After: plainPairs(sh.St.Snapshot()), Observed: []obsJ{}, Phase: o.Phase, ErrKind: o.ErrKind, NRows: len(o.Rows)})
					}
				}
			}
		}

		if c.prop == "C18" && (len(rc.Pins) > 0 || rc.Unsat) {
			stores := [][]KV{}
			full := make([]KV, len(keys))
			var sparse []KV
			for i, k := range keys {
				v := v0
				if i%2 == 0 {
					v = v1
				}
				full[i] = KV{k, v}
				if i%3 == 1 {
					sparse = append(sparse, full[i])
				}
			}
			stores = append(stores, full, sparse, []KV{})
			// two thin random stores per case (seeded by case index, so a re-run sees the same ones): which key happens to be
			// the first one beyond the region decides whether a wrong end test shows; in the dense stores it is always a short key
			srng := rand.New(rand.NewSource(envSeed()*1000003 + int64(idx)))
			for _, den := range []int{5, 9} {
				var thin []KV
				for i := range full {
					if srng.Intn(den) == 0 {
						thin = append(thin, full[i])
					}
				}
				stores = append(stores, thin)
			}
			for si, pairs := range stores {
				for _, kind := range []string{"select", "delete"} {
					q := selQ
					if kind == "delete" {
						q = delQ
					}
					for _, bs := range bsizes {
						for _, mode := range []string{"row", "batch"} {
							if mode == "row" && bs != bsizes[0] {
								continue
							}
							if kind == "delete" && mode == "row" && si > 0 {
								continue
							}
							o, sh := RunOn(q, pairs, RunOpts{Mode: mode, BSize: bs, Cache: true})
							out.Stats.Evaluations++
							if o.Phase != "done" {
								// not this property's concern (C06/C01 report it)
								out.Stats.bump("not-done")
								continue
							}
							out.Trace("access", accessTrace{ID: fmt.Sprintf("%s#s%d-%s-%s%d", id, si, kind, mode, bs), Q: q, Pins: fixPins(rc.Pins), Unsat: rc.Unsat, Events: compactEvents(sh.Log)})
							// the same clause under LIMIT (an offset far beyond the result, a short slice) and under ORDER BY:
							// skipping and ending early never read outside the envelope either
							if kind == "select" && bs == bsizes[0] && (c.tier == "thorough" || idx%3 == int((envSeed()+1)%3)) {
								for li, suffix := range []string{" limit 40, 5", " limit 1, 2", " order by value desc limit 2", " group by value"} {
									ql := q + suffix
									if li == 3 { // the same clause under an aggregate (drains its input once, then hands out the groups)
										ql = "select value, count(1) where " + text + suffix
									}
									ol, shl := RunOn(ql, pairs, RunOpts{Mode: mode, BSize: bs, Cache: true})
									out.Stats.Evaluations++
									out.Stats.bump("limited-access-runs")
									if ol.Phase != "done" {
										continue
									}
									out.Trace("access", accessTrace{ID: fmt.Sprintf("%s#s%d-%s-%s%d-l%d", id, si, kind, mode, bs, li), Q: ql, Pins: fixPins(rc.Pins), Unsat: rc.Unsat, Events: compactEvents(shl.Log), Slack: 1, Total: map[bool]int{true: 2, false: 0}[li == 3]})
								}
							}
							// the same statement with one of its first storage calls failing (cursor creation, the
							// positioning Seek, a Get): whatever it does next, it reads nothing outside the envelope
							if si == 0 && kind == "select" && bs == bsizes[0] && (c.tier == "thorough" || idx%3 == int(envSeed()%3)) {
								for f := 1; f <= 4 && f <= sh.NCalls; f++ {
									of, shf := RunOn(q, pairs, RunOpts{Mode: mode, BSize: bs, Cache: true, FaultAt: f, PollsAfterFail: 1})
									out.Stats.Evaluations++
									out.Stats.bump("faulted-access-runs")
									if of.Phase == "panic" || of.Phase == "runaway" {
										continue
									}
									out.Trace("access", accessTrace{ID: fmt.Sprintf("%s#s%d-%s-%s%d-f%d", id, si, kind, mode, bs, f), Q: q, Pins: fixPins(rc.Pins), Unsat: rc.Unsat, Events: compactEvents(shf.Log)})
								}
							}
						}
					}
				}
			}
		}
	})
	if err != nil {
		out.Infra = append(out.Infra, err.Error())
	}
}

func fixPins(p []pinJ) []pinJ {
	for i := range p {
		if p[i].Ks == nil {
			p[i].Ks = [][]int{}
		}
		if p[i].Lo == nil {
			p[i].Lo = []int{}
		}
		if p[i].Hi == nil {
			p[i].Hi = []int{}
		}
	}
	if p == nil {
		p = []pinJ{}
	}
	return p
}

// ---------------------------------------------------------------------------
// record region: seeded random deep trees with opaque atoms of arbitrary kind
// (C02's oracle is the engine's own filter, so anything the engine accepts is
// a legitimate case).

var regionKeyAlpha = []byte{'A', 'a', 'b', 'c'}

func randLit(r *rand.Rand, maxLen int) string {
	n := r.Intn(maxLen + 1)
	b := make([]byte, n)
	for i := range b {
		b[i] = regionKeyAlpha[r.Intn(len(regionKeyAlpha))]
	}
	return string(b)
}

func randKeyAtom(r *rand.Rand) *Node {
	lit := func() *Node { return AStr(randLit(r, 3)) }
	switch r.Intn(10) {
	case 0, 1, 2, 3, 4:
		op := []string{"=", "^=", ">", ">=", "<", "<="}[r.Intn(6)]
		if r.Intn(3) == 0 {
			return ABin(op, lit(), AKey())
		}
		return ABin(op, AKey(), lit())
	case 5, 6:
		n := 1 + r.Intn(3)
		items := make([]*Node, n)
		for i := range items {
			items[i] = lit()
		}
		return AIn(AKey(), items...)
	case 7:
		a, b := randLit(r, 3), randLit(r, 3)
		if a > b && r.Intn(8) != 0 { // now and then a reversed range: refused when evaluated, must not narrow the scan
			a, b = b, a
		}
		if a == b {
			b = b + "a"
		}
		return ABetween(AKey(), AStr(a), AStr(b))
	default:
		return randOpaque(r)
	}
}

func randOpaque(r *rand.Rand) *Node {
	switch r.Intn(9) {
	case 0:
		return ABin("=", AVal(), AStr("v1"))
	case 1:
		return ABin("~=", AVal(), AStr("^v1"))
	case 2:
		return ABin("=", ACall("upper", AKey()), AStr("AB"))
	case 3:
		return ABin(">", ACall("strlen", AKey()), AInt(1))
	case 4:
		return ABin("=", ABin("+", AKey(), AStr("x")), AStr("ax"))
	case 5:
		return ANot(ABin("=", AKey(), AStr(randLit(r, 2))))
	case 6:
		return ABin("!=", AKey(), AStr(randLit(r, 2)))
	case 7:
		return ABin("~=", AKey(), AStr("^a.*b$"))
	default:
		return ABin("^=", AVal(), AStr("v"))
	}
}

func randRegionTree(r *rand.Rand, depth int) *Node {
	if depth == 0 || r.Intn(4) == 0 {
		return randKeyAtom(r)
	}
	op := []string{"&", "|", "and", "or"}[r.Intn(4)]
	return ABin(op, randRegionTree(r, depth-1), randRegionTree(r, depth-1))
}

func init() {
	recordFamilies["region"] = recordRegion
}

func recordRegion(args []string) {
	c := parseCommon("region", args, nil)
	out := NewOut(c.out, c.prop)
	defer out.Close()
	// universe keys: all strings of length <= 3 over the key alphabet
	var universe [][]byte
	var gen func(p []byte, n int)
	gen = func(p []byte, n int) {
		universe = append(universe, append([]byte{}, p...))
		if n == 0 {
			return
		}
		for _, ch := range regionKeyAlpha {
			gen(append(p, ch), n-1)
		}
	}
	gen(nil, 3)
	// keys with the extreme bytes right behind a possible prefix or bound: p+0xFF, p+0xFF+'z', p+0x00 (a key is any byte
	// string; "the end of a prefix" computed as p+0xFF or p+1 goes wrong exactly here)
	for _, w := range []string{"", "a", "b", "c", "A", "aa", "ab", "ba", "bb", "ca", "Ab"} {
		for _, suf := range []string{"\xff", "\xffz", "\x00", "\xff\xff"} {
			universe = append(universe, []byte(w+suf))
		}
	}
	for i := 0; i < c.n; i++ {
		r := caseRand(c.shard, i)
		e := randRegionTree(r, 1+r.Intn(6))
		text := e.Text()
		id := fmt.Sprintf("r%d.%d:%s", c.shard, i, text)
		if c.only != "" && c.only != id {
			continue
		}
		if os.Getenv("KVH_SHRINK") != "" {
			full := []KV{}
			for j, k := range universe {
				v := "v0"
				if j%2 == 0 {
					v = "v1"
				}
				full = append(full, KV{k, []byte(v)})
			}
			full = NewRefStore(full).Snapshot()
			fails := func(t *Node) bool {
				q := "select * where " + t.Text()
				acc, ferr, fp := engineFilterAccepts(q, full)
				if ferr != nil || fp != "" {
					return false
				}
				o, _ := RunOn(q, full, RunOpts{Mode: "row", BSize: 32, Cache: true, NoLog: true})
				return o.Phase == "done" && !rowsMatchPairs(o.Rows, acc)
			}
			if fails(e) {
				m := Shrink(e, fails)
				fmt.Println("SHRUNK:", m.Text())
			}
		}
		perm := r.Perm(len(universe))
		nk := []int{len(universe), 20, 5}[r.Intn(3)]
		pairs := []KV{}
		for _, j := range perm[:nk] {
			v := "v0"
			if j%2 == 0 {
				v = "v1"
			} else if j%3 == 0 {
				v = "" // stored with an empty value
			}
			pairs = append(pairs, KV{universe[j], []byte(v)})
		}
		st := NewRefStore(pairs)
		pairs = st.Snapshot()
		selQ := "select * where " + text
		delQ := "delete where " + text
		out.Stats.Cases++
		acc, ferr, fpanic := engineFilterAccepts(selQ, pairs)
		if ferr != nil || fpanic != "" {
			out.Stats.Unmodelled++
			continue
		}
		out.Stats.distinct(text, len(acc) > 0)
		if filterHadError || hasReversedBetween(e) {
			// not evaluable on every pair: only "the region covers what the filter accepts" is judged
			o, _ := RunOn(selQ, pairs, RunOpts{Mode: "row", BSize: 32, Cache: true, NoLog: true})
			out.Stats.Evaluations++
			out.Stats.bump("partly-evaluable")
			if o.Phase == "rejected" || o.Phase == "panic" {
				continue
			}
			// A clause the filter refuses to evaluate on some pair (a reversed BETWEEN) decides nothing about
			// that pair: a key "can satisfy" the WHERE if it does with the refused atoms read as true or as false.
			// The region of the statement has to cover all of those keys (what a full scan would have looked at).
			may := map[string]KV{}
			for _, p := range acc {
				may[string(p.K)] = p
			}
			if filterHadError {
				for _, v := range reversedVariants(e) {
					vacc, verr, vpanic := engineFilterAccepts("select * where "+v.Text(), pairs)
					if verr != nil || vpanic != "" || filterHadError {
						continue
					}
					for _, p := range vacc {
						may[string(p.K)] = p
					}
				}
				out.Stats.bump("refused-atom-variants")
			}
			accMay := []KV{}
			for _, p := range pairs {
				if _, ok := may[string(p.K)]; ok {
					accMay = append(accMay, p)
				}
			}
			acc = accMay
			out.Trace("region", regionTrace{ID: id, Q: selQ, Plan: o.Plan, Acc: kvKeys(acc), Rows: kvKeys(acc), RowsB: kvKeys(acc), Before: [][]int{}, After: [][]int{}})
			continue
		}
		if i%500 == 0 {
			out.Stats.sample(map[string]any{"query": selQ, "store_pairs": len(pairs), "accepted": len(acc)})
		}
		tr := regionTrace{ID: id, Q: selQ, Acc: kvKeys(acc), Rows: [][]int{}, RowsB: [][]int{}, Before: [][]int{}, After: [][]int{}}
		bs := []int{1, 2, 3, 32}[r.Intn(4)]
		ok := true
		for _, mode := range []string{"row", "batch"} {
			o, _ := RunOn(selQ, pairs, RunOpts{Mode: mode, BSize: bs, Cache: true, NoLog: true})
			out.Stats.Evaluations++
			if o.Phase != "done" {
				out.Finding(Finding{Prop: c.prop, Kind: "select-" + o.Phase, CaseID: id, Query: selQ, Detail: fmt.Sprintf("mode=%s bsize=%d err=%s", mode, bs, o.ErrMsg)})
				ok = false
				continue
			}
			tr.Plan = o.Plan
			if mode == "row" {
				tr.Rows = keysOfRows(o.Rows)
			} else {
				tr.RowsB = keysOfRows(o.Rows)
			}
		}
		o, sh := RunOn(delQ, pairs, RunOpts{Mode: "batch", BSize: bs, Cache: true, NoLog: true})
		out.Stats.Evaluations++
		if o.Phase == "done" {
			tr.HasDel = true
			tr.Before = kvKeys(pairs)
			tr.After = kvKeys(sh.St.Snapshot())
		} else {
			out.Finding(Finding{Prop: c.prop, Kind: "delete-" + o.Phase, CaseID: id, Query: delQ, Detail: o.ErrMsg})
		}
		if ok {
			out.Trace("region", tr)
		}
	}
}

// hasReversedBetween: a BETWEEN over text literals whose lower bound sorts after the upper one is
// refused when evaluated; whether a row reaches it depends on short-circuiting (row mode) or not (batch mode).
func hasReversedBetween(n *Node) bool {
	if n.K == "bin" && n.Op == "between" && len(n.A) == 2 && len(n.A[1].A) == 2 &&
		n.A[1].A[0].K == "str" && n.A[1].A[1].K == "str" && string(ib(n.A[1].A[0].S)) > string(ib(n.A[1].A[1].S)) {
		return true
	}
	for _, c := range n.A {
		if hasReversedBetween(c) {
			return true
		}
	}
	return false
}

func sameKeys(a, b [][]int) bool {
	if len(a) != len(b) {
		return false
	}
	for i := range a {
		if string(ib(a[i])) != string(ib(b[i])) {
			return false
		}
	}
	return true
}

// reversedVariants: the tree with every reversed BETWEEN replaced by an opaque atom that is true on every
// pair of the record stores (value ^= 'v') or false on every pair (value ^= 'w'), in all combinations (at most 8).
func reversedVariants(e *Node) []*Node {
	n := 0
	var count func(x *Node)
	count = func(x *Node) {
		if hasReversedBetween(x) && x.K == "bin" && x.Op == "between" {
			n++
			return
		}
		for _, c := range x.A {
			count(c)
		}
	}
	count(e)
	if n == 0 || n > 3 {
		return nil
	}
	out := []*Node{}
	for mask := 0; mask < 1<<n; mask++ {
		i := 0
		var sub func(x *Node) *Node
		sub = func(x *Node) *Node {
			if x.K == "bin" && x.Op == "between" && hasReversedBetween(x) {
				lit := "w"
				if mask&(1<<i) != 0 {
					lit = "v"
				}
				i++
				return ABin("^=", AVal(), AStr(lit))
			}
			cp := *x
			cp.A = make([]*Node, len(x.A))
			for k, c := range x.A {
				cp.A[k] = sub(c)
			}
			return &cp
		}
		v := sub(e)
		v.fix()
		out = append(out, v)
	}
	return out
}

// keywordForm: the same tree with & and | written as the words and / or.
func keywordForm(n *Node) *Node {
	c := *n
	if c.K == "bin" && c.Op == "&" {
		c.Op = "and"
	} else if c.K == "bin" && c.Op == "|" {
		c.Op = "or"
	}
	c.A = make([]*Node, len(n.A))
	for i, x := range n.A {
		c.A[i] = keywordForm(x)
	}
	return &c
}
