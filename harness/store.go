package main

// Reference storage: a map ordered by byte-wise key comparison with snapshot
// cursors, wrapped by a recorder that logs every call, can inject one fault
// and can gate calls for schedule replay.

import (
	"bytes"
	"errors"
	"sort"
	"sync"

	"github.com/c4pt0r/kvql"
)

var ErrInjected = errors.New("injected storage fault")

type KV struct {
	K []byte
	V []byte
}

type RefStore struct {
	mu sync.Mutex
	m  map[string][]byte
}

func NewRefStore(pairs []KV) *RefStore {
	s := &RefStore{m: map[string][]byte{}}
	for _, p := range pairs {
		s.m[string(p.K)] = append([]byte{}, p.V...)
	}
	return s
}

func (s *RefStore) snapshotLocked() []KV {
	ks := make([]string, 0, len(s.m))
	for k := range s.m {
		ks = append(ks, k)
	}
	sort.Strings(ks)
	out := make([]KV, len(ks))
	for i, k := range ks {
		out[i] = KV{[]byte(k), s.m[k]}
	}
	return out
}

func (s *RefStore) Snapshot() []KV {
	s.mu.Lock()
	defer s.mu.Unlock()
	return s.snapshotLocked()
}

// Event is one storage call (or a poll boundary) as seen from outside.
type Event struct {
	P   int     `json:"p"`   // session / goroutine id
	Op  string  `json:"op"`  // Get Put BatchPut Delete BatchDelete Cursor Seek Next | Build BuildEnd Poll PollEnd
	K   []int   `json:"k"`   // key argument or key returned
	V   []int   `json:"v"`   // value argument or value returned
	Ks  [][]int `json:"ks"`  // batch keys
	Vs  [][]int `json:"vs"`  // batch values
	Ok  bool    `json:"ok"`  // Get: found; Next: not at end; PollEnd: rows returned
	Err string  `json:"err"` // "" | "fault" | "other"
	N   int     `json:"n"`   // PollEnd: number of rows
}

func bi(b []byte) []int {
	r := make([]int, len(b))
	for i, c := range b {
		r[i] = int(c)
	}
	return r
}

func ib(a []int) []byte {
	r := make([]byte, len(a))
	for i, c := range a {
		r[i] = byte(c)
	}
	return r
}

func newEv(p int, op string) Event {
	return Event{P: p, Op: op, K: []int{}, V: []int{}, Ks: [][]int{}, Vs: [][]int{}}
}

// Shared is what several sessions of one run share: the store, the global
// log, the call counter and the fault position.
type Shared struct {
	St      *RefStore
	Log     []Event
	NCalls  int
	FaultAt int // 1-based index of the storage call that fails; 0 = none
	// Gate, when set, is called before every storage call outside the lock
	// (schedule replay).
	Gate func(p int)
	// After, when set, is called after every storage call of session p (lock released)
	After func(p int)
	Quiet bool // do not log (speed)
}

type Rec struct {
	sh *Shared
	p  int
}

func NewRec(sh *Shared, p int) *Rec { return &Rec{sh: sh, p: p} }

func (r *Rec) begin(op string) (Event, bool) {
	if r.sh.Gate != nil {
		r.sh.Gate(r.p)
	}
	r.sh.St.mu.Lock()
	r.sh.NCalls++
	ev := newEv(r.p, op)
	fail := r.sh.FaultAt != 0 && r.sh.NCalls == r.sh.FaultAt
	if fail {
		ev.Err = "fault"
	}
	return ev, fail
}

func (r *Rec) end(ev Event) {
	if !r.sh.Quiet {
		r.sh.Log = append(r.sh.Log, ev)
	}
	r.sh.St.mu.Unlock()
	if r.sh.After != nil {
		r.sh.After(r.p)
	}
}

// Mark appends a non-storage event (poll boundaries) under the lock.
func (r *Rec) Mark(ev Event) {
	r.sh.St.mu.Lock()
	ev.P = r.p
	if !r.sh.Quiet {
		r.sh.Log = append(r.sh.Log, ev)
	}
	r.sh.St.mu.Unlock()
}

func (r *Rec) Get(key []byte) ([]byte, error) {
	ev, fail := r.begin("Get")
	ev.K = bi(key)
	if fail {
		r.end(ev)
		return nil, ErrInjected
	}
	v, ok := r.sh.St.m[string(key)]
	ev.Ok = ok
	var out []byte
	if ok {
		out = append([]byte{}, v...)
		ev.V = bi(v)
	}
	r.end(ev)
	return out, nil
}

func (r *Rec) Put(key, value []byte) error {
	ev, fail := r.begin("Put")
	ev.K, ev.V = bi(key), bi(value)
	if fail {
		r.end(ev)
		return ErrInjected
	}
	r.sh.St.m[string(key)] = append([]byte{}, value...)
	r.end(ev)
	return nil
}

func (r *Rec) BatchPut(kvs []kvql.KVPair) error {
	ev, fail := r.begin("BatchPut")
	for _, kv := range kvs {
		ev.Ks = append(ev.Ks, bi(kv.Key))
		ev.Vs = append(ev.Vs, bi(kv.Value))
	}
	if fail {
		r.end(ev)
		return ErrInjected
	}
	for _, kv := range kvs {
		r.sh.St.m[string(kv.Key)] = append([]byte{}, kv.Value...)
	}
	r.end(ev)
	return nil
}

func (r *Rec) Delete(key []byte) error {
	ev, fail := r.begin("Delete")
	ev.K = bi(key)
	if fail {
		r.end(ev)
		return ErrInjected
	}
	delete(r.sh.St.m, string(key))
	r.end(ev)
	return nil
}

func (r *Rec) BatchDelete(keys [][]byte) error {
	ev, fail := r.begin("BatchDelete")
	for _, k := range keys {
		ev.Ks = append(ev.Ks, bi(k))
	}
	if fail {
		r.end(ev)
		return ErrInjected
	}
	for _, k := range keys {
		delete(r.sh.St.m, string(k))
	}
	r.end(ev)
	return nil
}

type recCursor struct {
	r    *Rec
	snap []KV
	i    int
}

func (r *Rec) Cursor() (kvql.Cursor, error) {
	ev, fail := r.begin("Cursor")
	if fail {
		r.end(ev)
		return nil, ErrInjected
	}
	c := &recCursor{r: r, snap: r.sh.St.snapshotLocked()}
	r.end(ev)
	return c, nil
}

func (c *recCursor) Seek(prefix []byte) error {
	ev, fail := c.r.begin("Seek")
	ev.K = bi(prefix)
	if fail {
		c.r.end(ev)
		return ErrInjected
	}
	c.i = sort.Search(len(c.snap), func(i int) bool { return bytes.Compare(c.snap[i].K, prefix) >= 0 })
	c.r.end(ev)
	return nil
}

func (c *recCursor) Next() ([]byte, []byte, error) {
	ev, fail := c.r.begin("Next")
	if fail {
		c.r.end(ev)
		return nil, nil, ErrInjected
	}
	if c.i >= len(c.snap) {
		c.r.end(ev)
		return nil, nil, nil
	}
	kv := c.snap[c.i]
	c.i++
	ev.Ok = true
	ev.K, ev.V = bi(kv.K), bi(kv.V)
	c.r.end(ev)
	return append([]byte{}, kv.K...), append([]byte{}, kv.V...), nil
}
